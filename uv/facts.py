"""Fact database: functions with CFGs of flattened expression nodes (see tools/uvfacts.cc).

Everything here is rule-free infrastructure: indices, CFG relations (dominators,
post-dominators, control dependence with polarity, path queries), expression helpers
(pretty-printer, subtree walk, option reads, predicates) and the resolved call graph.
"""
import marshal
import os
import sys
from collections import defaultdict, deque

from . import prep
from .prep import AnalysisBroken

OPT_CALL_PREFIX = "uncrustify::Option<"
OPT_NS = "uncrustify::options::"


class Func(object):
    __slots__ = ("d", "qn", "key", "file", "l0", "l1", "blocks", "entry", "exit", "nodes", "nblock", "npos",
                 "succ", "pred", "_idom", "_ipdom", "_cd", "_domset", "_pdomset", "_parents", "_rpo", "_loops", "_ipdom_s")

    def __init__(self, d):
        self.d = d
        self.qn = d["qn"]
        self.key = d["key"]
        self.file = d["file"]
        self.l0 = d["l0"]
        self.l1 = d["l1"]
        self.entry = d["entry"]
        self.exit = d["exit"]
        self.blocks = {}
        self.nodes = {}
        self.nblock = {}
        self.npos = {}
        self.succ = {}
        self.pred = defaultdict(list)
        for b in d["blocks"]:
            bid = b["b"]
            self.blocks[bid] = b
            ss = [s for s in b["s"]]
            self.succ[bid] = ss
            for pos, n in enumerate(b["n"]):
                self.nodes[n["i"]] = n
                self.nblock[n["i"]] = bid
                self.npos[n["i"]] = pos
        for bid, ss in self.succ.items():
            for s in ss:
                if s >= 0:
                    self.pred[s].append(bid)
        for n in d.get("x", ()):
            self.nodes.setdefault(n["i"], n)
        self._idom = self._ipdom = self._cd = self._domset = self._pdomset = self._parents = self._rpo = self._loops = self._ipdom_s = None

    def __repr__(self):
        return "<Func %s %s:%d>" % (self.qn, self.file, self.l0)

    # ----- structure ---------------------------------------------------------------------------
    def block_nodes(self, bid):
        return self.blocks[bid]["n"]

    def all_nodes(self):
        """nodes in CFG order (block id descending = roughly source order in clang)"""
        for bid in sorted(self.blocks, reverse=True):
            for n in self.blocks[bid]["n"]:
                yield n

    def node(self, i):
        return self.nodes.get(i)

    def parents(self):
        if self._parents is None:
            p = defaultdict(list)
            for n in self.nodes.values():
                for c in children(n):
                    p[c].append(n["i"])
            self._parents = p
        return self._parents

    def reachable_blocks(self):
        seen = {self.entry}
        dq = deque([self.entry])
        while dq:
            b = dq.popleft()
            for s in self.succ[b]:
                if s >= 0 and s not in seen:
                    seen.add(s)
                    dq.append(s)
        return seen

    # ----- dominators --------------------------------------------------------------------------
    def _dom(self, root, succ, pred):
        # iterative dominators (Cooper/Harvey/Kennedy)
        order = []
        seen = set()
        stack = [(root, iter(succ(root)))]
        seen.add(root)
        while stack:
            b, it = stack[-1]
            adv = False
            for s in it:
                if s >= 0 and s not in seen:
                    seen.add(s)
                    stack.append((s, iter(succ(s))))
                    adv = True
                    break
            if not adv:
                order.append(b)
                stack.pop()
        rpo = order[::-1]
        idx = {b: i for i, b in enumerate(rpo)}
        idom = {root: root}
        changed = True
        while changed:
            changed = False
            for b in rpo[1:]:
                ps = [p for p in pred(b) if p in idom]
                if not ps:
                    continue
                new = ps[0]
                for p in ps[1:]:
                    a, c = p, new
                    while a != c:
                        while idx[a] > idx[c]:
                            a = idom[a]
                        while idx[c] > idx[a]:
                            c = idom[c]
                    new = a
                if idom.get(b) != new:
                    idom[b] = new
                    changed = True
        return idom, rpo

    def idom(self):
        if self._idom is None:
            self._idom, self._rpo = self._dom(self.entry, lambda b: self.succ[b], lambda b: self.pred[b])
        return self._idom

    def ipdom(self):
        """post-dominators w.r.t. the exit block; noreturn blocks flow to exit in clang's CFG."""
        if self._ipdom is None:
            self._ipdom, _ = self._dom(self.exit, lambda b: self.pred[b], lambda b: [s for s in self.succ[b] if s >= 0])
        return self._ipdom

    def ipdom_structural(self):
        """post-dominators with the edges noreturn-block -> exit removed: the join point of a branch whose
        error arm calls exit() is then the textual join, not the function exit."""
        if getattr(self, "_ipdom_s", None) is None:
            nr = set(b for b, blk in self.blocks.items() if blk.get("nr"))
            pred = lambda b: [p for p in self.pred[b] if not (b == self.exit and p in nr)]
            succ = lambda b: [s for s in self.succ[b] if s >= 0 and not (s == self.exit and b in nr)]
            self._ipdom_s, _ = self._dom(self.exit, pred, succ)
        return self._ipdom_s

    def dominates_block(self, a, b):
        """a dominates b (reflexive)"""
        idom = self.idom()
        if b not in idom or a not in idom:
            return False
        while True:
            if a == b:
                return True
            nb = idom[b]
            if nb == b:
                return False
            b = nb

    def postdominates_block(self, a, b):
        ip = self.ipdom()
        if b not in ip or a not in ip:
            return False
        while True:
            if a == b:
                return True
            nb = ip[b]
            if nb == b:
                return False
            b = nb

    def dominates(self, n1, n2):
        """node n1 is evaluated on every path from entry to node n2 (strictly before it)"""
        b1, b2 = self.nblock.get(n1), self.nblock.get(n2)
        if b1 is None or b2 is None:
            return False
        if b1 == b2:
            return self.npos[n1] < self.npos[n2]
        return self.dominates_block(b1, b2)

    # ----- control dependence --------------------------------------------------------------------
    def control_deps(self):
        """block -> set of (D, succ_index): block executes only if D's terminator took edge succ_index.
        Direct (non-transitive) control dependence."""
        if self._cd is None:
            cd = defaultdict(set)
            ip = self.ipdom()
            for d, ss in self.succ.items():
                real = [s for s in ss if s >= 0]
                if len(set(real)) < 2:
                    continue
                if d not in ip:
                    continue
                stop = ip[d]
                for i, s in enumerate(ss):
                    if s < 0 or s not in ip:
                        continue
                    x = s
                    guard = 0
                    while x != stop and guard < 100000:
                        cd[x].add((d, i))
                        nx = ip[x]
                        if nx == x:
                            break
                        x = nx
                        guard += 1
            self._cd = cd
        return self._cd

    def guards(self, bid, transitive=True):
        """set of edges (D, succ_index) that every path from the entry to block bid must take ("dominating edges"):
        the conditions on them are facts that hold whenever bid executes.  Computed from the dominator tree: for
        each block S on bid's dominator chain, if S has exactly one predecessor that S does not dominate (i.e.
        one forward predecessor D) reached by exactly one edge of D, then D->S is such an edge.  This treats the
        if-form, the early-return/exit form, the switch form and the ?: form alike."""
        idom = self.idom()
        out = set()
        if bid not in idom:
            return out
        s = bid
        guard = 0
        while guard < 100000:
            guard += 1
            fwd = [p for p in self.pred[s] if p in idom and not self.dominates_block(s, p)]
            if len(set(fwd)) == 1:
                d = fwd[0]
                idxs = [i for i, t in enumerate(self.succ[d]) if t == s]
                real = set(t for t in self.succ[d] if t >= 0)
                if len(idxs) == 1 and len(real) >= 2:
                    out.add((d, idxs[0]))
            nxt = idom[s]
            if nxt == s or not transitive:
                break
            s = nxt
        return out

    def direct_guard(self, bid):
        """(condition string node id, polarity) of the innermost dominating edge of block bid, or None"""
        g = self.guards(bid, transitive=False)
        idom = self.idom()
        b = bid
        guard = 0
        while not g and b in idom and idom[b] != b and guard < 1000:
            # blocks that merely follow straight-line code share the guard of their single-predecessor dominator
            if len(set(self.pred[b])) != 1 and not self.postdominates_block(b, idom[b]):
                break       # a real join of different conditions
            b = idom[b]
            g = self.guards(b, transitive=False)
            guard += 1
        for (d, i) in g:
            t = self.blocks[d].get("term") or {}
            c = t.get("lc", t.get("c"))
            if c is not None and len(self.succ[d]) == 2:
                return (c, i == 0)
        return None

    def control_dependence(self, bid):
        """classic transitive control dependence (block may execute only if ...); NOT a set of facts"""
        cd = self.control_deps()
        out = set()
        work = [bid]
        seen = {bid}
        while work:
            b = work.pop()
            for (d, i) in cd.get(b, ()):
                if (d, i) not in out:
                    out.add((d, i))
                    if d not in seen:
                        seen.add(d)
                        work.append(d)
        return out

    def edge_cond(self, d, i):
        """(leaf condition node id, polarity) of edge i leaving block d, or None.
        polarity True = condition true.  For switch edges returns (cond, ('case', labels))."""
        b = self.blocks[d]
        t = b.get("term")
        if not t:
            return None
        c = t.get("lc", t.get("c"))
        if c is None:
            return None
        k = t["k"]
        if k == "SwitchStmt":
            tgt = self.succ[d][i]
            lab = self.blocks[tgt].get("lab", {}) if tgt >= 0 else {}
            # the implicit default edge (no label) means "none of the cases"
            return (t.get("c"), ("case", tuple(lab.get("case", ())), bool(lab.get("default"))))
        if k in ("CXXForRangeStmt", "CXXTryStmt", "IndirectGotoStmt", "GotoStmt"):
            return None
        if len(self.succ[d]) == 2:
            return (c, i == 0)
        return None

    def guard_conds(self, bid, expand=True):
        """facts (condition node, polarity) that hold whenever block bid executes; `a && b` true is expanded
        to a true, b true; `a || b` false to a false, b false; `!a` flips.  Besides single dominating edges this
        recognises the join of a short-circuit chain: the then-block of `if (a || b)` has one predecessor per
        disjunct, all evaluating sub-expressions of the same condition C, which gives the fact (C, true)."""
        out = []
        for (d, i) in self.guards(bid):
            ec = self.edge_cond(d, i)
            if ec is not None:
                if expand and isinstance(ec[1], bool):
                    out.extend(self.expand_cond(ec[0], ec[1]))
                else:
                    out.append(ec)
        # short-circuit joins on the dominator chain
        idom = self.idom()
        s = bid
        guard = 0
        while s in idom and guard < 100000:
            guard += 1
            fwd = [p for p in self.pred[s] if p in idom and not self.dominates_block(s, p)]
            if len(set(fwd)) > 1:
                for t in set(fwd):
                    term = self.blocks[t].get("term")
                    if not term or term["k"] in ("&&", "||", "SwitchStmt") or "c" not in term or len(self.succ[t]) != 2:
                        continue
                    if self.succ[t][0] == self.succ[t][1]:
                        continue
                    pol = (self.succ[t][0] == s)
                    sub = set(n["i"] for n in walk(self, term["c"]))
                    ok = True
                    for p in set(fwd):
                        if p == t:
                            continue
                        pt = self.blocks[p].get("term")
                        if not pt or pt["k"] not in ("&&", "||") or pt.get("c") not in sub:
                            ok = False
                            break
                        # the short-circuit edge must carry the same truth value for the whole condition
                        if pt["k"] == "||" and not (pol is True and self.succ[p][0] == s):
                            ok = False
                            break
                        if pt["k"] == "&&" and not (pol is False and self.succ[p][1] == s):
                            ok = False
                            break
                    if ok:
                        out.extend(self.expand_cond(term["c"], pol) if expand else [(term["c"], pol)])
            nxt = idom[s]
            if nxt == s:
                break
            s = nxt
        return out

    def expand_cond(self, cn, pol, depth=0):
        n = self.nodes.get(cn)
        res = [(cn, pol)]
        if n is None or depth > 12:
            return res
        if n["k"] == "bin" and n["op"] == "&&" and pol is True:
            for a in n["a"]:
                res.extend(self.expand_cond(a, True, depth + 1))
        elif n["k"] == "bin" and n["op"] == "||" and pol is False:
            for a in n["a"]:
                res.extend(self.expand_cond(a, False, depth + 1))
        elif n["k"] == "un" and n["op"] == "!":
            res.extend(self.expand_cond(n["a"][0], not pol, depth + 1))
        elif n["k"] == "bin" and n["op"] in ("==", "!=") and isinstance(pol, bool):
            # `e == false` / `e != true` is the negation of e, `e == true` / `e != false` is e
            for lit_i, e_i in ((1, 0), (0, 1)):
                b = self.nodes.get(n["a"][lit_i])
                while b is not None and b["k"] == "cast":
                    b = self.nodes.get(b["a"][0])
                if b is not None and b["k"] == "bool":
                    same = (n["op"] == "==") == bool(b["v"])
                    res.extend(self.expand_cond(n["a"][e_i], pol if same else (not pol), depth + 1))
                    break
        elif n["k"] == "cast":
            res.extend(self.expand_cond(n["a"][0], pol, depth + 1)[1:])
        if n["k"] == "bin" and n["op"] in ("==", "!=") and isinstance(pol, bool):
            # `e != 0` is the fact e, `e == 0` its negation (an integer used as a truth value)
            for lit_i, e_i in ((1, 0), (0, 1)):
                z = self.nodes.get(n["a"][lit_i])
                while z is not None and z["k"] == "cast":
                    z = self.nodes.get(z["a"][0])
                if z is not None and z["k"] == "int" and z.get("v") == 0:
                    res.extend(self.expand_cond(n["a"][e_i], pol if n["op"] == "!=" else (not pol), depth + 1))
                    break
        return res

    # ----- path queries ------------------------------------------------------------------------
    def paths_avoiding(self, start, is_target, is_barrier, start_is_node=True, want_path=True, edge_ok=None):
        """Search forward from `start` (node id: begin just after it; or block id when
        start_is_node=False: begin at block head) for a node where is_target(node) holds without first
        crossing a node where is_barrier(node) holds.  Returns a witness path (list of block ids) + the
        target node, or None if every path is cut by a barrier.  Target test happens before barrier
        test on the same node."""
        if start_is_node:
            b0 = self.nblock[start]
            p0 = self.npos[start] + 1
        else:
            b0, p0 = start, 0
        seen = set()
        dq = deque([(b0, p0, (b0,))])
        first = True
        while dq:
            b, p, path = dq.popleft()
            if not first:
                if b in seen:
                    continue
                seen.add(b)
            first = False
            ns = self.blocks[b]["n"]
            cut = False
            for n in ns[p:]:
                if is_target(n):
                    return (list(path), n)
                if is_barrier(n):
                    cut = True
                    break
            if cut:
                continue
            for ei, s in enumerate(self.succ[b]):
                if s >= 0 and s not in seen:
                    if edge_ok is not None and not edge_ok(b, ei):
                        continue
                    dq.append((s, 0, path + (s,) if want_path else path))
        return None

    def exit_reachable_avoiding(self, start, is_barrier, start_is_node=True):
        """witness path from start to function exit that crosses no barrier node (or None)."""
        if start_is_node:
            b0 = self.nblock[start]
            p0 = self.npos[start] + 1
        else:
            b0, p0 = start, 0
        seen = set()
        dq = deque([(b0, p0, (b0,))])
        first = True
        while dq:
            b, p, path = dq.popleft()
            if not first:
                if b in seen:
                    continue
                seen.add(b)
            first = False
            if b == self.exit:
                return list(path)
            cut = False
            for n in self.blocks[b]["n"][p:]:
                if is_barrier(n):
                    cut = True
                    break
            if cut or self.blocks[b].get("nr"):
                continue          # a noreturn call ends the path: it does not return
            for s in self.succ[b]:
                if s >= 0 and s not in seen:
                    dq.append((s, 0, path + (s,)))
        return None

    def nodes_between(self, n1_pred, n2_pred):
        pass

    def path_lines(self, path):
        out = []
        for b in path:
            ns = self.blocks[b]["n"]
            if ns:
                out.append(ns[0]["l"])
        return out

    # ----- loops -------------------------------------------------------------------------------
    def loops(self):
        """natural loops: list of (header, set(body blocks), [back edge sources])"""
        if self._loops is None:
            self.idom()
            res = {}
            for b, ss in self.succ.items():
                for s in ss:
                    if s >= 0 and b in self._idom and self.dominates_block(s, b):
                        body = res.setdefault(s, (set([s]), []))
                        body[1].append(b)
                        work = [b]
                        while work:
                            x = work.pop()
                            if x in body[0]:
                                continue
                            body[0].add(x)
                            work.extend(self.pred[x])
            self._loops = [(h, v[0], v[1]) for h, v in res.items()]
        return self._loops


def children(n):
    k = n["k"]
    out = []
    if "o" in n:
        out.append(n["o"])
    if "b" in n:
        out.append(n["b"])
    if "fp" in n:
        out.append(n["fp"])
    out.extend(x for x in n.get("a", ()) if x is not None and x >= 0)
    if k == "decl":
        for v in n["vars"]:
            if "init" in v:
                out.append(v["init"])
    return [c for c in out if c is not None and c >= 0]


class DB(object):
    def __init__(self, path):
        with open(path, "rb") as fh:
            raw = marshal.load(fh)
        self.meta = raw["meta"]
        self.repo = self.meta["repo"]
        self.globals = raw["globals"]
        self.enums = raw["enums"]
        self.records = raw["records"]
        self.funcs = {}
        self.by_qn = defaultdict(list)
        for k, d in raw["functions"].items():
            f = Func(d)
            self.funcs[k] = f
            self.by_qn[f.qn].append(f)
        self._callers = None
        self._callees = None
        self._src = {}
        self._virt = None
        self._addr_taken = None

    # ----- lookup ------------------------------------------------------------------------------
    def fn(self, qn, file=None, sig=None):
        c = self.by_qn.get(qn, [])
        if file:
            c = [f for f in c if f.file == file]
        if sig:
            c = [f for f in c if f.d["sig"] == sig]
        if len(c) != 1:
            raise AnalysisBroken("anchor function %r%s: %d definitions found" % (qn, " in " + file if file else "", len(c)))
        return c[0]

    def fns(self, qn):
        return list(self.by_qn.get(qn, []))

    def has_fn(self, qn):
        return bool(self.by_qn.get(qn))

    def src_line(self, file, line):
        if file not in self._src:
            p = os.path.join(self.repo, file)
            try:
                with open(p, errors="replace") as fh:
                    self._src[file] = fh.read().split("\n")
            except OSError:
                self._src[file] = []
        L = self._src[file]
        return L[line - 1].strip() if 0 < line <= len(L) else ""

    def loc(self, f, n):
        return "%s:%d" % (f.file, n["l"] if isinstance(n, dict) else n)

    # ----- call graph --------------------------------------------------------------------------
    def _build_cg(self):
        callers = defaultdict(list)   # callee key or qn -> [(Func, node)]
        callees = defaultdict(set)    # func key -> set(callee keys)
        # virtual overriders
        over = defaultdict(set)
        for f in self.funcs.values():
            for o in f.d.get("over", ()):
                over[o].add(f.key)
        # transitive
        changed = True
        while changed:
            changed = False
            for o, s in list(over.items()):
                for k in list(s):
                    for kk in over.get(k, ()):
                        if kk not in s:
                            s.add(kk)
                            changed = True
        self._virt = over
        addr = defaultdict(list)
        for f in self.funcs.values():
            par = None
            for n in f.nodes.values():
                k = n["k"]
                if k in ("call", "ctor"):
                    cm = n.get("cm")
                    c = n.get("c")
                    tgt = None
                    if cm and cm in self.funcs:
                        tgt = cm
                    elif c:
                        # internal-linkage functions are keyed with @file
                        cands = [g for g in self.by_qn.get(c, ()) if g.d["m"] == cm or not cm]
                        if len(cands) == 1:
                            tgt = cands[0].key
                        elif len(cands) > 1:
                            same = [g for g in cands if g.file == f.file]
                            tgt = (same or cands)[0].key
                    if tgt:
                        callers[tgt].append((f, n))
                        callees[f.key].add(tgt)
                        if n.get("v"):
                            for ok in over.get(cm, ()):
                                callers[ok].append((f, n))
                                callees[f.key].add(ok)
                    if c:
                        callers["qn:" + c].append((f, n))
                elif k == "ref" and n.get("d") == "fn":
                    if par is None:
                        par = f.parents()
                    # address taken unless it is the callee operand of a direct call (direct calls don't
                    # reference their callee as an argument)
                    addr[n.get("cm") or n["qn"]].append((f, n))
                elif k == "lambda" and n.get("cm"):
                    if n["cm"] in self.funcs:
                        callers[n["cm"]].append((f, n))
                        callees[f.key].add(n["cm"])
        # address-taken functions: conservatively callable from the taker
        for tgt, sites in addr.items():
            key = tgt if tgt in self.funcs else None
            if key is None:
                c = [g for g in self.by_qn.get(tgt, ())]
                if len(c) >= 1:
                    key = c[0].key
            if key:
                for f, n in sites:
                    callers[key].append((f, n))
                    callees[f.key].add(key)
        self._callers, self._callees, self._addr_taken = callers, callees, addr

    def func_of_call(self, f, n):
        """Func of a resolved direct call node (functions with internal linkage are keyed per file)"""
        cm = n.get("cm")
        if not cm:
            return None
        return self.funcs.get(cm) or self.funcs.get("%s@%s" % (cm, f.file))

    def callers_of(self, qn):
        """all call sites [(Func, node)] whose resolved callee has this qualified name"""
        if self._callers is None:
            self._build_cg()
        return list(self._callers.get("qn:" + qn, ()))

    def callers_of_key(self, key):
        if self._callers is None:
            self._build_cg()
        return list(self._callers.get(key, ()))

    def callees_of(self, f):
        if self._callees is None:
            self._build_cg()
        return self._callees.get(f.key, set())

    def address_taken(self):
        if self._callers is None:
            self._build_cg()
        return self._addr_taken

    def reachable_from(self, roots, stop=()):
        """set of function keys reachable from the root Funcs over the call graph"""
        if self._callers is None:
            self._build_cg()
        seen = set()
        work = [r.key for r in roots]
        stop = set(s.key if isinstance(s, Func) else s for s in stop)
        while work:
            k = work.pop()
            if k in seen or k in stop:
                continue
            seen.add(k)
            work.extend(self._callees.get(k, ()))
        return seen

    def calls_in(self, f, qn=None, pred=None):
        out = []
        for n in f.all_nodes():
            if n["k"] in ("call", "ctor"):
                if qn is not None and n.get("c") != qn:
                    continue
                if pred is not None and not pred(n):
                    continue
                out.append(n)
        return out


# ----- expression helpers ----------------------------------------------------------------------
def walk(f, i, seen=None):
    """yield node i and all its descendants"""
    if seen is None:
        seen = set()
    stack = [i]
    while stack:
        x = stack.pop()
        if x in seen or x is None or x < 0:
            continue
        seen.add(x)
        n = f.nodes.get(x)
        if n is None:
            continue
        yield n
        stack.extend(children(n))


def short(qn):
    if not qn:
        return "?"
    q = qn
    if q.startswith(OPT_NS):
        return "options::" + q[len(OPT_NS):]
    return q.split("::")[-1] if "<" not in q else q


def expr_str(f, i, depth=0):
    n = f.nodes.get(i) if i is not None else None
    if n is None:
        return "?"
    if depth > 14:
        return "..."
    k = n["k"]
    E = lambda j: expr_str(f, j, depth + 1)
    if k == "call":
        args = ", ".join(E(a) for a in n.get("a", ()))
        c = n.get("c")
        op = n.get("op")
        if op:
            if "o" in n:
                if op == "()":
                    return "%s(%s)" % (E(n["o"]), args)
                if op == "[]":
                    return "%s[%s]" % (E(n["o"]), args)
                if not n.get("a"):
                    return "%s%s" % (op, E(n["o"]))
                return "%s %s %s" % (E(n["o"]), op, args)
            a = n.get("a", ())
            if len(a) == 2:
                return "%s %s %s" % (E(a[0]), op, E(a[1]))
            return "%s(%s)" % (op, args)
        name = short(c) if c else ("(*%s)" % E(n.get("fp")))
        if c and c.split("::")[-1].startswith("operator ") and "o" in n and not n.get("a"):
            return E(n["o"])          # conversion operator
        if "o" in n:
            return "%s%s%s(%s)" % (E(n["o"]), "->" if n.get("ar") else ".", name.split("::")[-1], args)
        return "%s(%s)" % (name, args)
    if k == "ctor":
        a = n.get("a", ())
        if len(a) == 1:
            return E(a[0])
        return "%s(%s)" % (n.get("t", "?"), ", ".join(E(x) for x in a))
    if k == "ref":
        if n.get("d") in ("gv", "ec", "fn", "sv"):
            return short(n.get("qn")) if n.get("d") != "gv" else short(n["qn"]) if n["qn"].startswith(OPT_NS) else n["n"]
        return n["n"]
    if k == "mem":
        return "%s%s%s" % (E(n["b"]), "->" if n.get("ar") else ".", n["n"])
    if k == "this":
        return "this"
    if k == "int":
        return str(n["v"])
    if k == "chr":
        v = n["v"]
        return repr(chr(v)) if 0 <= v < 0x110000 else str(v)
    if k == "str":
        return '"%s"' % n["v"].replace("\n", "\\n").replace("\r", "\\r").replace("\t", "\\t")
    if k == "bool":
        return "true" if n["v"] else "false"
    if k == "null":
        return "nullptr"
    if k in ("bin", "asg"):
        a = n["a"]
        op = n["op"]
        if k == "bin" and op in ("==", "!=", "<", ">", "<=", ">="):
            # canonical operand order for comparisons: a literal operand is printed on the right (`0 == x` reads `x == 0`), so
            # that facts are matched independently of the spelling
            def lit(i):
                x = f.nodes.get(i)
                while x is not None and x["k"] == "cast":
                    x = f.nodes.get(x["a"][0])
                return x is not None and (x["k"] in ("int", "chr", "str", "null", "bool", "flt") or (x["k"] == "ref" and x.get("d") == "ec"))
            if lit(a[0]) and not lit(a[1]):
                flip = {"==": "==", "!=": "!=", "<": ">", ">": "<", "<=": ">=", ">=": "<="}
                a = [a[1], a[0]]
                op = flip[op]
            # `e == false` reads `!e`, `e != false` / `e == true` read `e`
            rb = f.nodes.get(a[1])
            while rb is not None and rb["k"] == "cast":
                rb = f.nodes.get(rb["a"][0])
            if rb is not None and rb["k"] == "bool" and op in ("==", "!="):
                positive = (op == "==") == bool(rb["v"])
                inner = E(a[0])
                if positive:
                    return inner
                ln = f.nodes.get(a[0])
                while ln is not None and ln["k"] == "cast":
                    ln = f.nodes.get(ln["a"][0])
                return ("!%s" % inner) if ln is not None and ln["k"] in ("ref", "mem", "call", "idx") else ("!(%s)" % inner)
        return "%s %s %s" % (E(a[0]), op, E(a[1]))
    if k == "un":
        if n.get("post"):
            return "%s%s" % (E(n["a"][0]), n["op"])
        return "%s%s" % (n["op"], E(n["a"][0]))
    if k == "cond":
        a = n["a"]
        return "%s ? %s : %s" % (E(a[0]), E(a[1]), E(a[2]))
    if k == "cast":
        return "(%s)%s" % (n.get("t"), E(n["a"][0]))
    if k == "idx":
        return "%s[%s]" % (E(n["a"][0]), E(n["a"][1]))
    if k == "ret":
        return "return %s" % (E(n["a"][0]) if n.get("a") else "")
    if k == "decl":
        return "; ".join("%s %s%s" % (v["t"], v["n"], " = " + E(v["init"]) if "init" in v else "") for v in n["vars"])
    if k == "init":
        return "{%s}" % ", ".join(E(a) for a in n.get("a", ())[:8])
    if k == "new":
        return "new %s" % n.get("t")
    if k == "sizeof":
        return "sizeof(..)"
    return "<%s>" % n.get("k2", k)


def is_option_read(n):
    """`options::X()`  ==  Option<T>::operator() on global uncrustify::options::X"""
    return n["k"] == "call" and n.get("op") == "()" and (n.get("c") or "").startswith(OPT_CALL_PREFIX) and (n.get("c") or "").endswith("operator()")


def option_of(f, n):
    """name of the option object read by an option-read call node, or None"""
    if not is_option_read(n):
        return None
    o = f.nodes.get(n.get("o"))
    if o and o["k"] == "ref" and o.get("d") == "gv" and o["qn"].startswith(OPT_NS):
        return o["qn"][len(OPT_NS):]
    return None


def options_read(f, i):
    """set of option names read anywhere in the expression rooted at node i
    (including option objects passed by reference, e.g. to log_rule_B helpers)"""
    out = set()
    for n in walk(f, i):
        if n["k"] == "ref" and n.get("d") == "gv" and n.get("qn", "").startswith(OPT_NS):
            out.add(n["qn"][len(OPT_NS):])
    return out


def is_const_ref(n):
    """enumerator, or a const namespace-scope alias of one (IARF_ADD, PCF_FORCE_SPACE, LANG_OC ...)"""
    if n["k"] != "ref":
        return False
    if n.get("d") == "ec":
        return True
    return n.get("d") == "gv" and n.get("t", "").startswith("const ") and not n.get("qn", "").startswith(OPT_NS)


def enum_consts(f, i):
    return set(n["n"] for n in walk(f, i) if is_const_ref(n))


def callee_names(f, i):
    return set(n.get("c") for n in walk(f, i) if n["k"] in ("call", "ctor") and n.get("c"))


def in_macro(n, name):
    return name in n.get("mac", ())


def global_path(f, i):
    """for an lvalue expression rooted at a global: 'cpd.lang_flags', 'cpd.frame.x' ...; else None"""
    n = f.nodes.get(i)
    parts = []
    guard = 0
    while n is not None and guard < 20:
        guard += 1
        k = n["k"]
        if k == "mem":
            parts.append(n["n"])
            n = f.nodes.get(n["b"])
        elif k == "idx":
            parts.append("[]")
            n = f.nodes.get(n["a"][0])
        elif k == "ref" and n.get("d") in ("gv", "sv"):
            parts.append(n["qn"])
            return ".".join(reversed(parts))
        elif k == "un" and n["op"] == "*":
            n = f.nodes.get(n["a"][0])
        elif k == "cast":
            n = f.nodes.get(n["a"][0])
        else:
            return None
    return None


def root_decl(f, i):
    """the variable an lvalue/pointer expression is rooted in: ('lv'|'pv'|'gv'|'sv'|'this', name) or None"""
    n = f.nodes.get(i)
    guard = 0
    while n is not None and guard < 30:
        guard += 1
        k = n["k"]
        if k == "mem":
            n = f.nodes.get(n["b"])
        elif k == "idx":
            n = f.nodes.get(n["a"][0])
        elif k == "un" and n["op"] in ("*", "&"):
            n = f.nodes.get(n["a"][0])
        elif k == "cast":
            n = f.nodes.get(n["a"][0])
        elif k == "ref":
            return (n.get("d"), n.get("qn") or n["n"])
        elif k == "this":
            return ("this", "this")
        else:
            return None
    return None


_DB = None


def load(fresh=False):
    global _DB
    if _DB is None or fresh:
        path = prep.build_facts(fresh=fresh)
        _DB = DB(path)
    return _DB
