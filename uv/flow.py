"""Generic forward dataflow over a Func's CFG, reaching definitions of locals, value provenance."""
from collections import deque, defaultdict

from .facts import children, walk, options_read


def forward(f, transfer_block, init, bottom=frozenset(), join=None):
    """IN/OUT sets per block.  transfer_block(bid, in_set) -> out_set ; join = union by default."""
    IN = {b: bottom for b in f.blocks}
    OUT = {b: bottom for b in f.blocks}
    IN[f.entry] = init
    order = sorted(f.blocks, reverse=True)
    dq = deque(order)
    inq = set(order)
    visited = set()
    while dq:
        b = dq.popleft()
        inq.discard(b)
        ps = f.pred[b]
        if b == f.entry:
            i = init
        else:
            i = bottom
        for p in ps:
            i = (i | OUT[p]) if join is None else join(i, OUT[p])
        o = transfer_block(b, i)
        if o != OUT[b] or i != IN[b] or b not in visited:
            visited.add(b)
            IN[b] = i
            OUT[b] = o
            for s in f.succ[b]:
                if s >= 0 and s not in inq:
                    dq.append(s)
                    inq.add(s)
    return IN, OUT


def var_id(n):
    """identity of a local/param reference or declaration entry"""
    return (n["n"], n.get("dl"))


class ReachingDefs(object):
    """definitions of locals and parameters: ('decl', node, var) | ('asg', node) | ('incdec', node) |
    ('byref', callnode) | ('param', name).  A definition is identified by (var, node id)."""

    def __init__(self, f, db=None):
        self.f = f
        self.defs_in_block = defaultdict(list)   # bid -> [(pos, var, defid)]
        self.definfo = {}
        did = 0
        for bid, blk in f.blocks.items():
            for pos, n in enumerate(blk["n"]):
                k = n["k"]
                if k == "decl":
                    for v in n["vars"]:
                        if v.get("static"):
                            continue
                        var = (v["n"], v.get("dl"))
                        self.definfo[did] = ("decl", n, v)
                        self.defs_in_block[bid].append((pos, var, did))
                        did += 1
                elif k == "asg":
                    t = f.nodes.get(n["a"][0])
                    if t and t["k"] == "ref" and t.get("d") in ("lv", "pv"):
                        self.definfo[did] = ("asg", n, None)
                        self.defs_in_block[bid].append((pos, var_id(t), did))
                        did += 1
                elif k == "un" and n["op"] in ("++", "--"):
                    t = f.nodes.get(n["a"][0])
                    if t and t["k"] == "ref" and t.get("d") in ("lv", "pv"):
                        self.definfo[did] = ("incdec", n, None)
                        self.defs_in_block[bid].append((pos, var_id(t), did))
                        did += 1
                elif k == "call" and db is not None:
                    # locals passed to non-const reference parameters are (weak) definitions
                    tgt = db.func_of_call(f, n)
                    if tgt is None:
                        c = db.by_qn.get(n.get("c"), ())
                        tgt = c[0] if len(c) == 1 else None
                    if tgt is not None:
                        ps = tgt.d["params"]
                        for ai, a in enumerate(n.get("a", ())):
                            if ai < len(ps) and ps[ai]["t"].endswith("&") and not ps[ai]["t"].startswith("const "):
                                t = f.nodes.get(a)
                                if t and t["k"] == "ref" and t.get("d") in ("lv", "pv"):
                                    self.definfo[did] = ("byref", n, None)
                                    self.defs_in_block[bid].append((pos, var_id(t), did))
                                    did += 1
        self.weak = set(d for d, i in self.definfo.items() if i[0] in ("incdec", "byref"))
        vars_of = {}
        for bid, lst in self.defs_in_block.items():
            for pos, var, d in lst:
                vars_of[d] = var
        self.vars_of = vars_of

        def tb(bid, i):
            cur = set(i)
            for pos, var, d in self.defs_in_block.get(bid, ()):
                if d not in self.weak:
                    cur = set(x for x in cur if vars_of.get(x) != var)
                cur.add(d)
            return frozenset(cur)
        self.IN, self.OUT = forward(f, tb, frozenset())

    def at(self, node_id, var):
        """definitions (definfo tuples) of var that may reach node node_id; includes ('param',) pseudo def
        when the variable is a parameter and no strong def kills it on some path"""
        f = self.f
        bid = f.nblock.get(node_id)
        if bid is None:
            return []
        pos = f.npos[node_id]
        cur = set(self.IN[bid])
        for p, v, d in self.defs_in_block.get(bid, ()):
            if p >= pos:
                break
            if d not in self.weak:
                cur = set(x for x in cur if self.vars_of.get(x) != v)
            cur.add(d)
        return [self.definfo[d] for d in cur if self.vars_of.get(d) == var]

    def rhs_of(self, info):
        kind, n, v = info
        if kind == "decl":
            return v.get("init")
        if kind == "asg":
            return n["a"][1]
        return None


def provenance_options(f, rd, node_id, depth=4):
    """options whose value may flow into expression node_id (through locals, bounded chase)"""
    out = set()
    seen = set()

    def go(i, at, d):
        for n in walk(f, i):
            if n["k"] == "ref":
                if n.get("d") == "gv":
                    out.update(options_read(f, n["i"]))
                elif n.get("d") in ("lv", "pv") and d > 0:
                    var = var_id(n)
                    for info in rd.at(at, var):
                        key = (id(info[1]), var)
                        if key in seen:
                            continue
                        seen.add(key)
                        r = rd.rhs_of(info)
                        if r is not None:
                            go(r, info[1]["i"], d - 1)
                        if info[0] == "asg" and info[1]["op"] != "=":
                            pass
    go(node_id, node_id, depth)
    return out


def resolved_conds(f, rd, bid):
    """guard facts of block bid as (text, polarity), plus - for a fact that is a bool local with a single definition (or its
    negation) - the fact about the defining expression: `const bool same = a->IsSamePreproc(b); if (!same) return;` yields
    ('a->IsSamePreproc(b)', True) behind the return"""
    from .facts import expr_str
    out = []
    for cn, pol in f.guard_conds(bid):
        if cn is None:
            continue
        out.append((expr_str(f, cn), pol))
        n = f.nodes.get(cn)
        neg = False
        while n is not None and (n["k"] == "cast" or (n["k"] == "un" and n.get("op") == "!")):
            if n["k"] == "un":
                neg = not neg
            n = f.nodes.get(n["a"][0])
        if n is not None and n["k"] == "ref" and n.get("d") in ("lv", "pv") and isinstance(pol, bool):
            defs = rd.at(cn, var_id(n))
            if len(defs) == 1 and defs[0][0] in ("decl", "asg"):
                rhs = rd.rhs_of(defs[0])
                if rhs is not None:
                    out.append((expr_str(f, rhs), (not pol) if neg else pol))
        # a pointer local with a single definition that only names another expression (`const Chunk *behind = pc->GetNext();`):
        # the fact is also given in terms of that expression
        import re
        from .facts import walk
        txt = expr_str(f, cn)
        new = txt
        for x in walk(f, cn):
            if x["k"] == "ref" and x.get("d") == "lv" and (x.get("t") or "").endswith("*"):
                ds = rd.at(cn, var_id(x))
                if len(ds) == 1 and ds[0][0] == "decl" and rd.rhs_of(ds[0]) is not None:
                    rn = f.nodes.get(rd.rhs_of(ds[0]))
                    while rn is not None and rn["k"] == "cast":
                        rn = f.nodes.get(rn["a"][0])
                    if rn is not None and rn["k"] == "call" and "o" in rn:
                        new = re.sub(r"\b%s\b" % re.escape(x["n"]), expr_str(f, rn["i"]), new)
        if new != txt:
            out.append((new, pol))
    return out
