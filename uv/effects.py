"""A5: token-visible effect sites and their liveness under an abstract configuration.

Effect kinds at call sites:
  TEXT    a mutating UncText method applied to `X->Str()` (the text of a chunk)
  CREATE  Chunk::CopyAndAddBefore / CopyAndAddAfter (a new chunk enters the list)
  DELETE  Chunk::Delete
  MOVE    Chunk::MoveAfter / Swap / SwapLines
Liveness: a site is dead under configuration env if one of its dominating branch facts folds to the opposite truth
value, or if every call chain from the root to its function is cut the same way (greatest fixed point over the call
graph).  Option defaults come from the generated option definitions.
"""
from collections import defaultdict

from .facts import expr_str, walk, OPT_NS, in_macro
from .flow import ReachingDefs
from .fold import Folder

TEXT_MUT = ("operator=", "append", "pop_back", "pop_front", "resize", "clear", "insert", "erase", "set", "operator+=", "push_back", "replace")


def option_defaults(db):
    """option name -> default value as int (bool/enum/number); strings -> '' sentinel len"""
    consts = {}
    for g in db.globals:
        init = g.get("init")
        if init and not g["qn"].startswith(OPT_NS) and g.get("const") and init.get("k") in ("ref", "int"):
            if init["k"] == "int":
                consts[g["n"]] = init["v"]
            elif init.get("d") == "ec":
                consts[g["n"]] = init.get("v")
    out = {}
    for g in db.globals:
        if not g["qn"].startswith(OPT_NS) or not g.get("def"):
            continue
        init = g.get("init") or {}
        a = init.get("a") or []
        val = 0
        if len(a) >= 3 and a[2] is not None:
            d = a[2]
            if d.get("k") == "int":
                val = d["v"]
            elif d.get("k") == "ref":
                if d.get("d") == "ec":
                    val = d.get("v", 0)
                else:
                    val = consts.get(d.get("n"), None)
            elif d.get("k") == "str":
                val = ("str", d["v"])
            else:
                val = None
        out[g["n"]] = val
    return out, consts


def effect_sites(db):
    sites = []
    for f in db.funcs.values():
        if f.file == "src/uncrustify_emscripten.cpp":
            continue
        incls = f.d.get("cls")
        for n in f.nodes.values():
            if n["k"] != "call":
                continue
            c = n.get("c") or ""
            meth = c.split("::")[-1]
            if c.startswith("UncText::") and meth in TEXT_MUT and not n.get("cq") and "o" in n:
                o = f.nodes.get(n["o"])
                if o is not None and o["k"] == "call" and o.get("c") == "Chunk::Str" and "o" in o:
                    recv = f.nodes.get(o["o"])
                    # a local Chunk object being prepared for insertion is not a list chunk
                    if recv is not None and recv["k"] == "ref" and recv.get("d") in ("lv", "pv") and not (recv.get("t") or "").rstrip().endswith("*"):
                        continue
                    if incls == "Chunk":
                        continue
                    sites.append((f, n, "TEXT", expr_str(f, o["o"])))
            elif c in ("Chunk::CopyAndAddBefore", "Chunk::CopyAndAddAfter") and incls != "Chunk":
                sites.append((f, n, "CREATE", expr_str(f, n.get("o"))))
            elif c == "Chunk::Delete" and incls != "Chunk":
                sites.append((f, n, "DELETE", expr_str(f, n["a"][0]) if n.get("a") else "?"))
            elif c in ("Chunk::MoveAfter", "Chunk::Swap", "Chunk::SwapLines") and incls != "Chunk":
                sites.append((f, n, "MOVE", expr_str(f, n.get("o"))))
    return sites


class Liveness(object):
    def __init__(self, db, env, root, cut_calls=(), extra_false=()):
        """env: option name -> set of ints.  cut_calls: callee names whose call sites in `root` are treated as dead.
        extra_false: expression strings (as printed by expr_str) assumed false, e.g. '!cpd.file_hdr.data.empty()'."""
        self.db = db
        self.env = env
        self.root = root
        self.cut = set(cut_calls)
        self.extra_false = set(extra_false)
        self._folders = {}
        self.alive = None
        self._compute()

    def folder(self, f):
        if f.key not in self._folders:
            self._folders[f.key] = Folder(f, ReachingDefs(f, self.db), self.env, self.consts(),
                                          dead_node=lambda n, f=f: self.site_dead(f, n)[0])
        return self._folders[f.key]

    def consts(self):
        if not hasattr(self, "_consts"):
            self._consts = option_defaults(self.db)[1]
        return self._consts

    def site_dead(self, f, n):
        """(dead?, reason) from the dominating facts of node n folded under env; memoised per block, re-entrant
        queries (a flag whose definition depends on itself) answer 'not dead'"""
        b = f.nblock.get(n["i"])
        if b is None:
            return False, None
        key = (f.key, b)
        memo = self.__dict__.setdefault("_memo", {})
        if key in memo:
            return memo[key]
        busy = self.__dict__.setdefault("_busy", set())
        if key in busy:
            return False, None
        busy.add(key)
        try:
            res = self._site_dead(f, b)
        finally:
            busy.discard(key)
        memo[key] = res
        return res

    def _site_dead(self, f, b):
        fd = self.folder(f)
        for cn, pol in f.guard_conds(b):
            if cn is None or not isinstance(pol, bool):
                continue
            s = expr_str(f, cn)
            if s in self.extra_false and pol is True:
                return True, "`%s` is false under the configuration" % s
            if s.startswith("!") and s[1:] in self.extra_false and pol is False:
                return True, "`%s` is true under the configuration" % s
            t = fd.truth(cn, cn)
            if t is not None and t != pol:
                return True, "`%s` folds to %s" % (s[:80], t)
        return False, None

    def _compute(self):
        db = self.db
        if db._callers is None:
            db._build_cg()
        from .globalstate import GlobalState
        gs = GlobalState.__new__(GlobalState)
        gs.db = db
        gs._targets = {}
        # call sites per callee
        sites = defaultdict(list)
        for f in db.funcs.values():
            for n in f.nodes.values():
                if n["k"] in ("call", "ctor", "lambda"):
                    for t in gs.call_targets(f, n):
                        sites[t].append((f, n))
                elif n["k"] == "ref" and n.get("d") == "fn":
                    key = n.get("cm") if n.get("cm") in db.funcs else None
                    if key:
                        sites[key].append((f, n))
        self.sites = sites
        alive = {self.root.key}
        dead_site_cache = {}
        changed = True
        while changed:
            changed = False
            for k, f in db.funcs.items():
                if k in alive:
                    continue
                for (g, n) in sites.get(k, ()):
                    if g.key not in alive:
                        continue
                    if g.key == self.root.key and (n.get("c") in self.cut):
                        continue
                    ck = (g.key, n["i"])
                    if ck not in dead_site_cache:
                        dead_site_cache[ck] = self.site_dead(g, n)[0]
                    if not dead_site_cache[ck]:
                        alive.add(k)
                        changed = True
                        break
        self.alive = alive

    def is_alive(self, f, n):
        if f.key not in self.alive:
            return False, "no live call chain from %s reaches %s" % (self.root.qn, f.qn)
        d, why = self.site_dead(f, n)
        return (not d), why
