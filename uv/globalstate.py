"""Inter-procedural analysis of global state: stores, loads, upward-exposed loads from an entry point.

A location is `cpd.<field>` for the members of the global cp_data_t object, the qualified name for any other
namespace-scope / class-static / function-static variable, and the pseudo location OPTIONS for the values of all
Option<T> objects (written through Option<T>::operator= / reset, which are reached through pointers).
"""
from collections import defaultdict, deque

from .facts import global_path, walk, expr_str, in_macro, OPT_NS

STRONG_METHODS = ("operator=", "clear", "assign", "reset", "set")
BUF_WRITERS = ("memset", "memcpy", "strcpy", "strncpy", "snprintf", "sprintf", "fgets", "fread")
BUF_STRONG = ("memset", "strcpy", "snprintf", "sprintf")     # overwrite the object from its start
OPTIONS = "OPTIONS"
# non-const overloads of standard-container accessors that do not modify the container
READONLY_METHODS = ("find", "count", "begin", "end", "cbegin", "cend", "rbegin", "rend", "size", "empty", "at", "front", "back",
                    "data", "c_str", "length", "lower_bound", "upper_bound", "equal_range", "operator->", "operator*", "get")


def loc_of(f, i):
    gp = global_path(f, i)
    if gp is None:
        return None
    parts = gp.split(".")
    if parts[0] == "cpd" and len(parts) > 1:
        return "cpd." + parts[1]
    if parts[0].startswith(OPT_NS):
        return None            # reading an option object is reading configuration: handled as OPTIONS
    return parts[0]


def whole_object(f, i):
    """the lvalue names the whole location (not an element / sub-member)"""
    gp = global_path(f, i)
    if gp is None:
        return False
    parts = gp.split(".")
    if parts[0] == "cpd":
        return len(parts) == 2
    return len(parts) == 1


class GlobalState(object):
    def __init__(self, db):
        self.db = db
        self.events = {}      # func key -> {block: [(pos, kind, loc/callees, node)]}
        self.stores = defaultdict(list)
        self.loads = defaultdict(list)
        self._targets = {}
        for f in db.funcs.values():
            self._scan(f)

    def call_targets(self, f, n):
        db = self.db
        key = (f.key, n["i"])
        if key in self._targets:
            return self._targets[key]
        out = []
        if db._callers is None:
            db._build_cg()
        cm, c = n.get("cm"), n.get("c")
        if n["k"] == "lambda":
            if n.get("cm") in db.funcs:
                out.append(n["cm"])
        elif cm and cm in db.funcs:
            out.append(cm)
        elif c:
            cands = [g for g in db.by_qn.get(c, ()) if not cm or g.d["m"] == cm]
            if len(cands) > 1:
                same = [g for g in cands if g.file == f.file]
                cands = same or cands
            out.extend(g.key for g in cands[:1])
        elif "fp" in n:
            out.extend(k for k in self._address_taken_keys())
        if n.get("v") and cm:
            out.extend(db._virt.get(cm, ()))
        self._targets[key] = out
        return out

    def _address_taken_keys(self):
        if not hasattr(self, "_atk"):
            ks = set()
            for tgt in self.db.address_taken():
                if tgt in self.db.funcs:
                    ks.add(tgt)
                else:
                    for g in self.db.by_qn.get(tgt, ()):
                        ks.add(g.key)
            self._atk = sorted(ks)
        return self._atk

    def _scan(self, f):
        ev = defaultdict(list)
        lhs_strong = set()     # node ids that are the target operand of a strong store (not loads)
        for bid, blk in f.blocks.items():
            for pos, n in enumerate(blk["n"]):
                k = n["k"]
                if k == "asg":
                    loc = loc_of(f, n["a"][0])
                    if loc:
                        strong = n["op"] == "=" and whole_object(f, n["a"][0])
                        ev[bid].append((pos, "I" if strong else "W", loc, n))
                        self.stores[loc].append((f, n, strong))
                        if strong:
                            lhs_strong.update(x["i"] for x in walk(f, n["a"][0]))
                elif k == "un" and n["op"] in ("++", "--"):
                    loc = loc_of(f, n["a"][0])
                    if loc:
                        ev[bid].append((pos, "W", loc, n))
                        self.stores[loc].append((f, n, False))
                elif k in ("call", "ctor", "lambda"):
                    c = n.get("c") or ""
                    meth = c.split("::")[-1]
                    if "o" in n and not n.get("cq") and not (meth in READONLY_METHODS or (meth == "operator[]" and "map<" not in c)):
                        loc = loc_of(f, n["o"])
                        if loc:
                            strong = meth in STRONG_METHODS and whole_object(f, n["o"]) and n.get("op", "=") == "="
                            if meth == "operator=" and n.get("op") != "=":
                                strong = False
                            ev[bid].append((pos, "I" if strong else "W", loc, n))
                            self.stores[loc].append((f, n, strong))
                            if strong:
                                lhs_strong.update(x["i"] for x in walk(f, n["o"]))
                    if c in BUF_WRITERS and n.get("a"):
                        loc = loc_of(f, n["a"][0])
                        if loc:
                            strong = c in BUF_STRONG and whole_object(f, n["a"][0])
                            ev[bid].append((pos, "I" if strong else "W", loc, n))
                            self.stores[loc].append((f, n, strong))
                            if strong:
                                lhs_strong.update(x["i"] for x in walk(f, n["a"][0]))
                    if c.startswith("uncrustify::Option<") and meth in ("operator=", "reset") or c in ("uncrustify::GenericOption::read", "uncrustify::GenericOption::reset"):
                        ev[bid].append((pos, "W", OPTIONS, n))
                        self.stores[OPTIONS].append((f, n, False))
                    ev[bid].append((pos, "C", None, n))
        # loads
        for bid, blk in f.blocks.items():
            for pos, n in enumerate(blk["n"]):
                loc = None
                if n["k"] == "mem":
                    b = f.nodes.get(n["b"])
                    if b and b["k"] == "ref" and b.get("qn") == "cpd":
                        loc = "cpd." + n["n"]
                elif n["k"] == "ref" and n.get("d") in ("gv", "sv") and n.get("qn") != "cpd":
                    if n["qn"].startswith(OPT_NS):
                        loc = OPTIONS
                    elif not n.get("t", "").startswith("const "):
                        loc = n["qn"]
                if loc and n["i"] not in lhs_strong:
                    obs = in_macro(n, "LOG_FMT") or in_macro(n, "LOG_FUNC_ENTRY") or in_macro(n, "LOG_CHUNK")
                    ev[bid].append((pos, "O" if obs else "L", loc, n))
                    if not obs:
                        self.loads[loc].append((f, n))
        for bid in ev:
            ev[bid].sort(key=lambda e: (e[0], 0 if e[1] in ("L", "O") else 1))
        self.events[f.key] = ev

    # ------------------------------------------------------------------------------------------
    def relevant(self, loc, funcs):
        """functions of `funcs` that have an event on loc or can reach one through calls"""
        db = self.db
        fs = set(funcs)
        direct = set()
        for k in fs:
            for lst in self.events.get(k, {}).values():
                if any(e[2] == loc for e in lst):
                    direct.add(k)
                    break
        if db._callers is None:
            db._build_cg()
        rev = defaultdict(set)
        for k in fs:
            for t in db._callees.get(k, ()):
                rev[t].add(k)
        rel = set(direct)
        work = list(direct)
        while work:
            k = work.pop()
            for c in rev.get(k, ()):
                if c in fs and c not in rel:
                    rel.add(c)
                    work.append(c)
        return rel

    def exposure(self, loc, funcs):
        """For location loc over the function set `funcs` (keys): returns (exposed, mustinit, witness) where
        exposed[k]  = some path from k's entry reaches a load of loc before any strong store of it,
        mustinit[k] = every returning path of k passes a strong store of loc,
        witness[k]  = (function key, node) of the first exposed load found through k."""
        db = self.db
        if getattr(self, "_scope", None) != set(funcs):
            self._scope = set(funcs)
            self._skc = {}
        funcs = sorted(self.relevant(loc, funcs))
        rel = {}
        for k in funcs:
            ev = self.events.get(k, {})
            mine = {}
            for bid, lst in ev.items():
                r = [e for e in lst if e[1] == "C" or (e[2] == loc and e[1] in ("L", "I"))]
                if r:
                    mine[bid] = r
            rel[k] = mine
        mustinit = {k: False for k in funcs}
        changed = True
        while changed:
            changed = False
            for k in funcs:
                if mustinit[k]:
                    continue
                f = db.funcs[k]
                if self._all_paths_init(f, rel[k], mustinit):
                    mustinit[k] = True
                    changed = True
        exposed = {k: False for k in funcs}
        witness = {}
        changed = True
        while changed:
            changed = False
            for k in funcs:
                if exposed[k]:
                    continue
                f = db.funcs[k]
                w = self._find_exposed(f, rel[k], mustinit, exposed, witness)
                if w is not None:
                    exposed[k] = True
                    witness[k] = w
                    changed = True
        return defaultdict(bool, exposed), defaultdict(bool, mustinit), witness

    def _all_paths_init(self, f, rel, mustinit):
        # is the exit reachable from the entry without passing an init?
        seen = set()
        dq = deque([f.entry])
        while dq:
            b = dq.popleft()
            if b in seen:
                continue
            seen.add(b)
            if b == f.exit:
                return False
            cut = False
            for (pos, kind, loc, n) in rel.get(b, ()):
                if kind == "I":
                    cut = True
                    break
                if kind == "C":
                    ts = self.call_targets(f, n)
                    if ts and all(mustinit.get(t, False) for t in ts):
                        cut = True
                        break
            if cut or f.blocks[b].get("nr"):
                continue
            for s in f.succ[b]:
                if s >= 0:
                    dq.append(s)
        return True

    def _stable_keys(self, f):
        """leaf conditions of f that are pure loads of a location nobody in the analysed set stores to (or of a
        parameter/local never assigned in f) and that are tested by at least two terminators: the search tracks
        their truth value so that `if (c) A; if (!c || x) B;` is not explored along c-false-then-c-true."""
        cache = getattr(self, "_skc", None)
        if cache is None:
            cache = self._skc = {}
        if f.key in cache:
            return cache[f.key]
        assigned = set()
        for n in f.nodes.values():
            if n["k"] == "asg" or (n["k"] == "un" and n["op"] in ("++", "--")):
                t = f.nodes.get(n["a"][0])
                if t is not None and t["k"] == "ref":
                    assigned.add(t["n"])
        count = defaultdict(int)
        keys = {}
        for b, blk in f.blocks.items():
            t = blk.get("term")
            if not t or len(f.succ[b]) != 2:
                continue
            c = t.get("lc", t.get("c"))
            if c is None:
                continue
            for cn, pol in f.expand_cond(c, True):
                n = f.nodes.get(cn)
                if n is None:
                    continue
                key = None
                if n["k"] == "mem":
                    bb = f.nodes.get(n["b"])
                    if bb is not None and bb["k"] == "ref" and bb.get("qn") == "cpd" and not any(
                            g.key in self._scope for g, _n, _s in self.stores.get("cpd." + n["n"], ())):
                        key = "cpd." + n["n"]
                elif n["k"] == "ref" and n.get("d") in ("pv", "lv") and n["n"] not in assigned and n.get("t") == "bool":
                    key = n["n"]
                if key:
                    keys[cn] = key
                    count[key] += 1
        res = {cn: k for cn, k in keys.items() if count[k] >= 2}
        cache[f.key] = res
        return res

    def _edge_facts(self, f, b, i, stable):
        ec = f.edge_cond(b, i)
        if ec is None or not isinstance(ec[1], bool) or not stable:
            return ()
        out = []
        for cn, pol in f.expand_cond(ec[0], ec[1]):
            if cn in stable:
                out.append((stable[cn], pol))
        return out

    def _find_exposed(self, f, rel, mustinit, exposed, witness):
        stable = self._stable_keys(f)
        seen = set()
        dq = deque([(f.entry, frozenset())])
        while dq:
            b, facts = dq.popleft()
            if (b, facts) in seen:
                continue
            seen.add((b, facts))
            cut = False
            for (pos, kind, loc, n) in rel.get(b, ()):
                if kind == "L":
                    return (f.key, n, [f.key])
                if kind == "I":
                    cut = True
                    break
                if kind == "C":
                    ts = [t for t in self.call_targets(f, n) if t in exposed]
                    for t in ts:
                        if exposed.get(t):
                            w = witness[t]
                            return (w[0], w[1], [f.key] + w[2])
                    if ts and len(ts) == len(self.call_targets(f, n)) and all(mustinit.get(t, False) for t in ts):
                        cut = True
                        break
            if cut:
                continue
            fd = dict(facts)
            for i, s in enumerate(f.succ[b]):
                if s < 0:
                    continue
                nf = self._edge_facts(f, b, i, stable)
                if any(k in fd and fd[k] != v for k, v in nf):
                    continue
                if nf:
                    d2 = dict(fd)
                    d2.update(nf)
                    dq.append((s, frozenset(d2.items())))
                else:
                    dq.append((s, facts))
        return None

    # ------------------------------------------------------------------------------------------
    def is_zero_reset(self, f, n):
        """strong store node n writes the zero/empty value"""
        from .rules.c11 import zero_like
        if n["k"] == "asg":
            return zero_like(f, n["a"][1])
        if n["k"] == "call":
            c = n.get("c") or ""
            if c == "memset":
                return zero_like(f, n["a"][1])
            if c.endswith("::clear"):
                return True
            if c.endswith("::operator=") and n.get("a"):
                a = f.nodes.get(n["a"][0])
                return a is not None and a["k"] == "str" and a["v"] == ""
        return False

    def zero_edge(self, f, b, i, loc):
        """taking edge i out of block b implies that scalar location loc is zero (false / nullptr / 0)"""
        ec = f.edge_cond(b, i)
        if ec is None or not isinstance(ec[1], bool):
            return False
        for cn, pol in f.expand_cond(ec[0], ec[1]):
            n = f.nodes.get(cn)
            if n is None:
                continue

            def is_loc(j):
                m = f.nodes.get(j)
                if m is None:
                    return False
                if m["k"] == "mem":
                    bb = f.nodes.get(m["b"])
                    return bb is not None and bb["k"] == "ref" and bb.get("qn") == "cpd" and "cpd." + m["n"] == loc
                return m["k"] == "ref" and m.get("qn") == loc
            if is_loc(cn) and pol is False:
                return True
            if n["k"] == "bin" and n["op"] in ("!=", ">", "==") and is_loc(n["a"][0]):
                from .rules.c11 import zero_like
                if zero_like(f, n["a"][1]):
                    if n["op"] in ("!=", ">") and pol is False:
                        return True
                    if n["op"] == "==" and pol is True:
                        return True
        return False

    def _binding(self, f, n, tgt):
        """bool parameters of callee `tgt` bound to literals at call node n (default arguments included)"""
        ps = self.db.funcs[tgt].d["params"]
        out = []
        for i, a in enumerate(n.get("a", ())):
            if i < len(ps) and ps[i]["t"] == "bool":
                an = f.nodes.get(a)
                if an is not None and an["k"] == "bool":
                    out.append((ps[i]["n"], bool(an["v"])))
        return frozenset(out)

    def dirty_exit(self, loc, funcs, root):
        """May `root` return with loc holding something else than its zero/empty initial value, when entered with
        loc clean?  Tables are keyed by (function, binding of bool parameters to call-site literals), so that
        uncrustify_file(..., defer=false) and (..., defer=true) get separate summaries.
        D[key]: may return dirty when entered clean; E[key]: may return dirty when entered dirty."""
        db = self.db
        relset = self.relevant(loc, funcs)
        rel = {}
        for k in relset:
            ev = self.events.get(k, {})
            mine = {}
            for bid, lst in ev.items():
                r = [e for e in lst if e[1] == "C" or (e[2] == loc and e[1] in ("W", "I"))]
                if r:
                    mine[bid] = r
            rel[k] = mine
        D = {}
        E = {}
        wit = {}
        keys = [(root, frozenset())]
        D[keys[0]] = E[keys[0]] = False
        changed = True
        rounds = 0
        while changed and rounds < 200:
            rounds += 1
            changed = False
            for key in list(keys):
                k, binding = key
                f = db.funcs[k]
                for entry_dirty, tab in ((False, D), (True, E)):
                    if tab[key]:
                        continue
                    w, newkeys = self._exit_dirty(f, rel.get(k, {}), loc, entry_dirty, D, E, wit, binding, relset)
                    for nk in newkeys:
                        if nk not in D:
                            D[nk] = E[nk] = False
                            keys.append(nk)
                            changed = True
                    if w is not None:
                        tab[key] = True
                        wit.setdefault((key, entry_dirty), w)
                        changed = True
        return D[keys[0]], wit.get((keys[0], False))

    def _exit_dirty(self, f, rel, loc, entry_dirty, D, E, wit, binding, relset):
        bind = dict(binding)
        newkeys = []

        def edge_feasible(b, i):
            if not bind:
                return True
            ec = f.edge_cond(b, i)
            if ec is None or not isinstance(ec[1], bool):
                return True
            for cn, pol in f.expand_cond(ec[0], ec[1]):
                n = f.nodes.get(cn)
                if n is not None and n["k"] == "ref" and n.get("d") == "pv" and n["n"] in bind and bind[n["n"]] != pol:
                    return False
            return True
        seen = set()
        dq = deque([(f.entry, entry_dirty, None)])
        result = None
        while dq:
            b, dirty, w = dq.popleft()
            if (b, dirty) in seen:
                continue
            seen.add((b, dirty))
            for (pos, kind, l, n) in rel.get(b, ()):
                if kind == "I":
                    if self.is_zero_reset(f, n):
                        dirty, w = False, None
                    else:
                        dirty, w = True, (f.key, n)
                elif kind == "W":
                    dirty, w = True, (f.key, n)
                elif kind == "C":
                    ts = [t for t in self.call_targets(f, n) if t in relset]
                    if ts:
                        nd = False
                        for t in ts:
                            tk = (t, self._binding(f, n, t))
                            if tk not in D:
                                newkeys.append(tk)
                                continue
                            if (E if dirty else D)[tk]:
                                nd = True
                                if not dirty:
                                    w = wit.get((tk, False), w)
                            elif dirty and not E[tk]:
                                pass
                        if len(ts) < len(self.call_targets(f, n)) and dirty:
                            nd = True          # an irrelevant target leaves a dirty state dirty
                        if dirty and not nd:
                            w = None
                        dirty = nd
            if b == f.exit:
                if dirty and result is None:
                    result = w or (f.key, None)
                continue
            if f.blocks[b].get("nr"):
                continue
            for i, s2 in enumerate(f.succ[b]):
                if s2 < 0 or not edge_feasible(b, i):
                    continue
                if dirty and self.zero_edge(f, b, i, loc):
                    dq.append((s2, False, None))
                else:
                    dq.append((s2, dirty, w))
        return result, newkeys
