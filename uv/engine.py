"""Rule engine: obligations, floors, known findings, evidence, exit codes.

exit 0  every obligation held, or failed only on instances listed in known_findings.json
exit 1  + 'VIOLATION property=<id> replay=<path>'  an unlisted instance failed
exit 2  analysis broken (anchor vanished, unit failed to parse, rule below its instance floor)
"""
import importlib
import json
import os
import sys
import time
import traceback

from . import facts
from .prep import AnalysisBroken, VERIF

KNOWN = os.path.join(VERIF, "known_findings.json")
EXCEPTIONS = os.path.join(VERIF, "rules", "exceptions.json")


class Rule(object):
    def __init__(self, ctx, rid, text):
        self.ctx = ctx
        self.id = rid
        self.text = text
        self.obligations = 0
        self.discharged = 0
        self.events = 0
        self.sites = set()
        self.violations = []
        self.samples = []
        self.excepted = []
        self.notes = []

    def ok(self, instance, loc=None, detail=None):
        self.obligations += 1
        self.discharged += 1
        self.sites.add(instance)
        if len(self.samples) < 4:
            self.samples.append("%s %s [%s] holds%s" % (loc or "", self.id, instance, (": " + detail) if detail else ""))

    def fail(self, instance, loc, message, path=None):
        """instance: stable key of the failing instance (symbol based, no line numbers)"""
        self.obligations += 1
        self.sites.add(instance)
        ex = self.ctx.exception_for(self.id, instance)
        if ex is not None:
            self.discharged += 1
            self.excepted.append({"instance": instance, "reason": ex})
            return
        self.violations.append({"rule": self.id, "instance": instance, "loc": loc, "message": message, "path": path or []})

    def check(self, cond, instance, loc=None, message="", detail=None, path=None):
        if cond:
            self.ok(instance, loc, detail)
        else:
            self.fail(instance, loc, message, path)
        return cond

    def seen(self, n=1):
        self.events += n

    def floor(self, n, what="instances"):
        if self.obligations < n:
            raise AnalysisBroken("%s matched %d %s, floor is %d: the code changed shape or the rule lost its anchor"
                                 % (self.id, self.obligations, what, n))

    def require(self, cond, what):
        if not cond:
            raise AnalysisBroken("%s: anchor missing: %s" % (self.id, what))

    def note(self, s):
        self.notes.append(s)

    def names(self, f, *names):
        """the rule reads conditions of f as printed text, i.e. it depends on the names of these locals / parameters: if one
        of them is gone (a rename, not a change of behaviour) the rule has lost its anchor - analysis-broken, not a violation"""
        have = set()
        for n in f.nodes.values():
            if n["k"] == "ref" and n.get("d") in ("lv", "pv", "sl"):
                have.add(n["n"])
            elif n["k"] == "decl":
                for v in n.get("vars", ()):
                    have.add(v["n"])
        for p in f.d.get("params", ()):
            have.add(p["n"])
        missing = [x for x in names if x not in have]
        if missing:
            raise AnalysisBroken("%s: %s no longer has the local(s)/parameter(s) %s that the rule's conditions are written over (renamed?)"
                                 % (self.id, f.qn, ", ".join(missing)))


class Ctx(object):
    def __init__(self, pid, tier):
        self.pid = pid
        self.tier = tier
        self.db = None
        self.rules = []
        try:
            self.known = json.load(open(KNOWN))
        except OSError:
            self.known = {"findings": [], "fixed": []}
        try:
            self.exceptions = json.load(open(EXCEPTIONS))
        except OSError:
            self.exceptions = []
        self.extra = {}
        self.broken = []

    def rule(self, rid, text):
        r = Rule(self, "%s.%s" % (self.pid, rid) if not rid.startswith("C") else rid, text)
        self.rules.append(r)
        return r

    def exception_for(self, rid, instance):
        for e in self.exceptions:
            if (e["rule"] == rid or (e["rule"].startswith("*.") and rid.endswith(e["rule"][1:]))) and e["instance"] == instance:
                return e["reason"]
        return None

    def known_for(self, rid, instance):
        for e in self.known.get("findings", ()):
            if e["property"] == self.pid and e["rule"] == rid and e["instance"] == instance:
                return e
        return None


def run_property(pid, tier="quick", fresh=False):
    t0 = time.time()
    seed = int(os.environ.get("VERIF_SEED", "0") or 0)
    ctx = Ctx(pid, tier)
    evidence_path = os.path.join(os.environ.get("UV_EVIDENCE_DIR", os.path.join(VERIF, "evidence")), pid + ".json")
    os.makedirs(os.path.dirname(evidence_path), exist_ok=True)
    outdir = os.path.join(os.environ.get("UV_OUT_DIR", os.path.join(VERIF, "out")), pid)
    os.makedirs(outdir, exist_ok=True)
    try:
        ctx.db = facts.load(fresh=fresh)
        mod = importlib.import_module("uv.rules." + pid.lower())
        broken = []
        rules = mod.RULES_for(tier) if hasattr(mod, "RULES_for") else mod.RULES
        for fn in rules:
            try:
                fn(ctx)
            except AnalysisBroken as e:
                broken.append("%s: %s" % (fn.__name__, e))
            except Exception:
                traceback.print_exc()
                broken.append("%s: internal error in the checker" % fn.__name__)
        if tier == "thorough" and not os.environ.get("UV_IN_SELFTEST"):
            try:
                _sensitivity(ctx, pid)
            except AnalysisBroken as e:
                broken.append("checker-sensitivity: %s" % e)
        ctx.broken = broken
    except AnalysisBroken as e:
        print("ANALYSIS-BROKEN property=%s: %s" % (pid, e))
        write_evidence(ctx, evidence_path, seed, t0, broken=str(e))
        return 2
    except Exception:
        traceback.print_exc()
        print("ANALYSIS-BROKEN property=%s: internal error in the checker (see traceback)" % pid)
        write_evidence(ctx, evidence_path, seed, t0, broken="internal error")
        return 2
    unlisted = []
    for r in ctx.rules:
        kn = 0
        for v in r.violations:
            k = ctx.known_for(r.id, v["instance"])
            if k is not None:
                kn += 1
                v["known"] = True
                print("KNOWN-FINDING: property=%s %s [%s] %s (%s)" % (pid, r.id, v["instance"], k.get("what", v["message"]), v["loc"]))
            else:
                unlisted.append(v)
        print("%-34s obligations=%-5d discharged=%-5d events=%-6d violations=%d known=%d excepted=%d  -- %s"
              % (r.id, r.obligations, r.discharged, r.events, len(r.violations) - kn, kn, len(r.excepted), r.text[:90]))
    write_evidence(ctx, evidence_path, seed, t0)
    for b in ctx.broken:
        print("ANALYSIS-BROKEN property=%s: %s" % (pid, b))
    if unlisted:
        for i, v in enumerate(unlisted):
            rp = os.path.join(outdir, "violation_%d.json" % i)
            with open(rp, "w") as fh:
                json.dump(v, fh, indent=1)
            print("  %s [%s] at %s: %s" % (v["rule"], v["instance"], v["loc"], v["message"]))
            for p in v.get("path", [])[:12]:
                print("      path: %s" % p)
            print("VIOLATION property=%s replay=%s" % (pid, rp))
        return 1
    if ctx.broken:
        return 2
    print("PASS property=%s tier=%s rules=%d obligations=%d wall=%.1fs" % (pid, tier, len(ctx.rules), sum(r.obligations for r in ctx.rules), time.time() - t0))
    return 0


def _sensitivity(ctx, pid):
    """thorough tier: the check must still report every one of its mutants (selftest/mutants/<pid>/*.patch applied to a
    scratch copy of the current tree).  A mutant that is no longer reported means the checker lost sensitivity - that is
    analysis-broken (exit 2), never a violation of the property."""
    import re
    import subprocess
    mdir = os.path.join(VERIF, "selftest", "mutants", pid)
    if not os.path.isdir(mdir):
        return
    r = ctx.rule("checker-sensitivity", "every mutant of selftest/mutants/%s (one broken rule instance each, still compiling) applied to a scratch "
                 "copy of the current tree makes this check exit 1 and name the mutated instance" % pid)
    p = subprocess.run([os.path.join(VERIF, "selftest", "run"), pid, "-j", str(min(8, os.cpu_count() or 4)), "--no-json"],
                       stdout=subprocess.PIPE, stderr=subprocess.STDOUT, text=True)
    bad = []
    for line in p.stdout.splitlines():
        m = re.match(r"^(C\d+)\s+(\S+\.patch)\s+(\S+)", line)
        if not m:
            continue
        r.seen()
        if m.group(3) in ("detected",):
            r.ok("mutant/%s" % m.group(2), None, "reported")
        elif m.group(3) == "not-applicable":
            r.note("mutant %s no longer applies to the current tree" % m.group(2))
        else:
            bad.append("%s: %s" % (m.group(2), m.group(3)))
    if bad:
        raise AnalysisBroken("the check no longer reports %d of its mutants: %s" % (len(bad), "; ".join(bad)))
    r.floor(1, "mutants")
    # ... and stay silent on behaviour-preserving edits (selftest/benign/<pid>/*.patch): a VIOLATION there is a false alarm of
    # the checker, reported as analysis-broken
    bdir = os.path.join(VERIF, "selftest", "benign", pid)
    if os.path.isdir(bdir):
        r2 = ctx.rule("checker-silence", "every behaviour-preserving edit of selftest/benign/%s applied to a scratch copy of the current tree leaves "
                      "this check without a violation (an honest analysis-broken is accepted)" % pid)
        p = subprocess.run([os.path.join(VERIF, "selftest", "run"), pid, "--benign", "-j", str(min(8, os.cpu_count() or 4)), "--no-json"],
                           stdout=subprocess.PIPE, stderr=subprocess.STDOUT, text=True)
        fa = []
        for line in p.stdout.splitlines():
            m = re.match(r"^(C\d+)\s+(\S+\.patch)\s+(\S+)", line)
            if not m:
                continue
            r2.seen()
            if m.group(3) in ("silent", "analysis-broken-accepted", "not-applicable"):
                r2.ok("edit/%s" % m.group(2), None, m.group(3))
            else:
                fa.append("%s: %s" % (m.group(2), m.group(3)))
        if fa:
            raise AnalysisBroken("the check raises a false alarm on %d behaviour-preserving edits: %s" % (len(fa), "; ".join(fa)))


def write_evidence(ctx, path, seed, t0, broken=None):
    rules = ctx.rules
    ob = sum(r.obligations for r in rules)
    di = sum(r.discharged for r in rules)
    known = sum(1 for r in rules for v in r.violations if v.get("known"))
    viol = sum(len(r.violations) for r in rules) - known
    samples = []
    for r in rules:
        samples.extend(r.samples[:3])
        for v in r.violations[:3]:
            samples.append("%s %s [%s] FAILS%s: %s" % (v["loc"], v["rule"], v["instance"], " (known finding)" if v.get("known") else "", v["message"]))
    meta = ctx.db.meta if ctx.db else {}
    ev = {
        "property_id": ctx.pid,
        "tier": ctx.tier if ctx.tier in ("quick", "thorough") else "quick",
        "seed": seed,
        "level": "other",
        "coverage": {
            "explanation": "static rule instances over the parsed program (clang CFG + resolved callees, all %s units of the "
                           "compile database generated from the current tree); rules: %s%s"
                           % (meta.get("units", "?"), "; ".join("%s = %s" % (r.id, r.text) for r in rules) or "(none ran)",
                              ("; ANALYSIS BROKEN: " + broken) if broken else ""),
            "obligations": ob,
            "discharged": di + known if False else di,
            "evaluations": max(1, sum(r.events for r in rules) + ob),
            "distinct_nontrivial": len(set((r.id, s) for r in rules for s in r.sites)),
            "rule": "an evaluation is one program event (call, store, branch, return, table row) examined by a rule; a "
                    "distinct non-trivial case is a distinct (rule, instance) whose premise matched in the source",
            "samples": samples[:40] or ["(no instance)"],
            "units": meta.get("units", 0),
            "functions": len(ctx.db.funcs) if ctx.db else 0,
            "per_rule": [{"rule": r.id, "obligations": r.obligations, "discharged": r.discharged, "events": r.events,
                          "violations": len(r.violations), "excepted": r.excepted, "notes": r.notes} for r in rules],
            "known_findings_reported": known,
            "checker_cmd": "./check %s --tier %s" % (ctx.pid, ctx.tier),
            "exhaustive": True,
        },
        "assumptions": [
            "clang 14's parse and CFG of each unit (flags of the generated compile database, -DNDEBUG as shipped) are faithful",
            "a rule decides the structural clause it names, not the behavioural remainder stated in DESIGN.md section 4",
        ],
        "wall_s": round(time.time() - t0, 3),
        "violations": viol,
    }
    ev["coverage"].update(ctx.extra)
    tmp = path + ".tmp%d" % os.getpid()
    with open(tmp, "w") as fh:
        json.dump(ev, fh, indent=1)
    os.replace(tmp, path)


def main(argv):
    if len(argv) < 2:
        print("usage: check <ID> [--tier quick|thorough]")
        return 2
    pid = argv[1]
    tier = os.environ.get("VERIF_TIER", "quick")
    if "--tier" in argv:
        tier = argv[argv.index("--tier") + 1]
    if "--replay" in argv:
        p = argv[argv.index("--replay") + 1]
        print(open(p).read())
        print("(replay = re-run of the static rule on the current tree)")
    return run_property(pid, tier, fresh=(tier == "thorough"))
