"""Prepare facts for the current working tree of the repository.

 * hashes every input of the build (src/, scripts/, cmake/, CMakeLists.txt, tests are not inputs)
 * cmake-configures a scratch build dir outside /repo and /verif, builds only the generated
   sources, so that compile_commands.json and options.cpp/option_enum.cpp exist
 * runs bin/uvfacts on every unit of the database in parallel, one JSON per unit
 * merges them into one marshal file  <cache>/<key>/facts.bin  (see facts.py)

Nothing of /repo/_build is read.  The scratch build dir is removed before returning.
"""
import hashlib
import json
import marshal
import os
import shutil
import subprocess
import sys
import tempfile
import time

VERIF = os.path.dirname(os.path.dirname(os.path.abspath(__file__)))
REPO = os.environ.get("UV_REPO", "/repo")
CACHE = os.environ.get("UV_CACHE", os.path.join(VERIF, ".cache"))
UVFACTS = os.path.join(VERIF, "bin", "uvfacts")
EXPECTED_MIN_UNITS = 130          # 138 today


class AnalysisBroken(Exception):
    pass


def tree_key(repo=REPO):
    h = hashlib.sha256()
    roots = ["src", "scripts", "cmake", "CMakeLists.txt"]
    for r in roots:
        p = os.path.join(repo, r)
        if os.path.isfile(p):
            files = [p]
        else:
            files = []
            for d, dn, fn in os.walk(p):
                dn.sort()
                for f in sorted(fn):
                    if f.endswith((".pyc", ".orig", ".rej")):
                        continue
                    files.append(os.path.join(d, f))
        for f in files:
            h.update(os.path.relpath(f, repo).encode())
            h.update(b"\0")
            try:
                with open(f, "rb") as fh:
                    h.update(fh.read())
            except OSError:
                pass
            h.update(b"\0")
    with open(UVFACTS, "rb") as fh:
        h.update(hashlib.sha256(fh.read()).digest())
    h.update(repo.encode())
    return h.hexdigest()[:24]


def ensure_tool():
    src = os.path.join(VERIF, "tools", "uvfacts.cc")
    if os.path.exists(UVFACTS) and os.path.getmtime(UVFACTS) >= os.path.getmtime(src):
        return
    subprocess.check_call([os.path.join(VERIF, "setup.sh")])


def _scratch_root():
    for d in ("/var/tmp", "/dev/shm", tempfile.gettempdir()):
        if os.path.isdir(d) and os.access(d, os.W_OK):
            return d
    return tempfile.gettempdir()


def build_facts(repo=REPO, fresh=False, log=sys.stderr):
    ensure_tool()
    key = tree_key(repo)
    outdir = os.path.join(CACHE, key)
    facts = os.path.join(outdir, "facts.bin")
    if os.path.exists(facts) and not fresh:
        return facts
    t0 = time.time()
    os.makedirs(CACHE, exist_ok=True)
    # drop stale cache entries (keep the 3 most recent)
    ents = sorted((os.path.join(CACHE, e) for e in os.listdir(CACHE)), key=os.path.getmtime)
    for e in ents[:-3]:
        shutil.rmtree(e, ignore_errors=True)
    W = tempfile.mkdtemp(prefix="uvw-", dir=_scratch_root())
    try:
        bdir = os.path.join(W, "b")
        r = subprocess.run(["cmake", "-S", repo, "-B", bdir, "-G", "Ninja", "-DCMAKE_BUILD_TYPE=RelWithDebInfo",
                            "-DCMAKE_EXPORT_COMPILE_COMMANDS=ON"],
                           stdout=subprocess.PIPE, stderr=subprocess.STDOUT, text=True)
        if r.returncode != 0:
            raise AnalysisBroken("cmake configure failed:\n" + r.stdout[-2000:])
        gens = ["src/options.cpp", "src/option_enum.cpp", "src/option_enum.h", "src/punctuator_table.h",
                "token_names.h", "generate_version_header"]
        r = subprocess.run(["ninja", "-C", bdir] + gens, stdout=subprocess.PIPE, stderr=subprocess.STDOUT, text=True)
        if r.returncode != 0:
            raise AnalysisBroken("generating sources failed:\n" + r.stdout[-2000:])
        db = json.load(open(os.path.join(bdir, "compile_commands.json")))
        units = []
        seen = set()
        for e in db:
            f = os.path.normpath(os.path.join(e["directory"], e["file"]))
            if f in seen:
                continue
            seen.add(f)
            units.append(f)
        if len(units) < EXPECTED_MIN_UNITS:
            raise AnalysisBroken("compile database has %d units, expected >= %d" % (len(units), EXPECTED_MIN_UNITS))
        jdir = os.path.join(W, "j")
        hdir = os.path.join(W, "h")
        os.makedirs(jdir)
        os.makedirs(hdir)
        jobs = []
        for i, u in enumerate(units):
            out = os.path.join(jdir, "%03d.json" % i)
            jobs.append((u, out))
        listing = "\n".join("%s\t%s" % j for j in jobs) + "\n"
        srcroot = os.path.realpath(os.path.join(repo, "src"))
        cmd = ("xargs -P%d -L1 sh -c '%s -p %s --out \"$1\" --root %s --root %s --hdrdir %s \"$0\" 2>\"$1.err\" || echo FAIL \"$0\"'"
               % (os.cpu_count() or 8, UVFACTS, bdir, srcroot + "/", os.path.realpath(bdir) + "/", hdir))
        r = subprocess.run(cmd, shell=True, input="".join("%s %s\n" % j for j in jobs), stdout=subprocess.PIPE,
                           stderr=subprocess.STDOUT, text=True)
        failed = [l for l in r.stdout.splitlines() if l.startswith("FAIL")]
        if failed or r.returncode != 0:
            msgs = []
            for u, out in jobs:
                if os.path.exists(out + ".err") and os.path.getsize(out + ".err"):
                    msgs.append(open(out + ".err").read()[-600:])
            raise AnalysisBroken("extraction failed for %d units: %s\n%s" % (len(failed), failed[:5], "\n".join(msgs[:3])))
        merged = merge(jobs, repo, os.path.realpath(bdir))
        merged["meta"] = {"repo": repo, "key": key, "units": len(units), "unit_files": [os.path.relpath(u, repo) if u.startswith(repo) else "<build>/" + os.path.relpath(u, bdir) for u in units],
                          "extract_s": round(time.time() - t0, 2)}
        os.makedirs(outdir, exist_ok=True)
        tmp = facts + ".tmp%d" % os.getpid()
        with open(tmp, "wb") as fh:
            marshal.dump(merged, fh)
        os.replace(tmp, facts)
        print("uv: extracted %d units, %d functions in %.1fs" % (len(units), len(merged["functions"]), time.time() - t0), file=log)
        return facts
    finally:
        shutil.rmtree(W, ignore_errors=True)


def merge(jobs, repo, bdir):
    functions = {}
    globals_ = []
    enums = {}
    records = {}
    repo_r = os.path.realpath(repo)

    def rel(p):
        if p.startswith(repo_r + "/"):
            return os.path.relpath(p, repo_r)
        if p.startswith(bdir + "/"):
            return "<build>/" + os.path.relpath(p, bdir)
        return p
    for u, out in jobs:
        with open(out) as fh:
            d = json.load(fh)
        for f in d["functions"]:
            f["file"] = rel(f["file"])
            key = f["m"] or (f["qn"] + f["sig"])
            if f.get("internal"):
                key += "@" + f["file"]
            if key in functions:
                continue
            f["key"] = key
            functions[key] = f
        for g in d["globals"]:
            g["file"] = rel(g["file"])
            globals_.append(g)
        for e in d["enums"]:
            e["file"] = rel(e["file"])
            enums.setdefault(e["qn"], e)
        for r in d["records"]:
            r["file"] = rel(r["file"])
            records.setdefault(r["qn"], r)
    return {"functions": functions, "globals": globals_, "enums": enums, "records": records}


if __name__ == "__main__":
    try:
        p = build_facts(fresh="--fresh" in sys.argv)
        print(p)
    except AnalysisBroken as e:
        print("ANALYSIS-BROKEN: %s" % e)
        sys.exit(2)
