"""A9: end-of-input divergence of the tokenizer's character loops.

At the end of the input `TokenContext::more()` is false, `peek()`/`peek(k)`/`get()` return 0 and `get()` makes no
progress (read off the bodies of these four methods and checked on every run).  A loop that consumes input is therefore
an infinite loop at end of file unless one of its exit edges is feasible in that state.  Three-valued evaluation of the
loop's conditions under

    more() = false, peek(*) = get() = 0,
    every local that the body assigns only from such constants = that constant (steady state of the loop at EOF),
    libc character classes at 0 (isspace(0) = isalpha(0) = ... = 0, tolower(0) = toupper(0) = 0),
    small pure functions evaluated on constant arguments (unc_isspace(0), CharTable::IsKw1(0) with chars[0] from the
    table's initialiser, is_hex_(0) ...), anything else unknown;

a loop is reported only if its back edge is reachable and no exit edge is reachable through conditions that are not
definitely false.  Unknown is always treated as "may leave", so a report is a definite hang for an input that ends
inside the construct the loop scans.
"""
from collections import deque

from .facts import expr_str

T, F, U = True, False, None

LIBC_ZERO = {"isspace": 0, "isprint": 0, "isalpha": 0, "isalnum": 0, "isxdigit": 0, "isdigit": 0, "isupper": 0, "islower": 0, "ispunct": 0,
             "isgraph": 0, "isblank": 0, "tolower": 0, "toupper": 0}
CTX = "TokenContext"


def I(v):
    return ("int", int(v))


def is_int(x):
    return isinstance(x, tuple) and x[0] == "int"


def as_bool(x):
    if is_int(x):
        return x[1] != 0
    if x is T or x is F:
        return x
    return U


def k_not(a):
    return U if a is U else (not a)


def k_and(a, b):
    if a is F or b is F:
        return F
    if a is T and b is T:
        return T
    return U


def k_or(a, b):
    if a is T or b is T:
        return T
    if a is F and b is F:
        return F
    return U


class EofWalk(object):
    def __init__(self, db):
        self.db = db
        self._memo = {}
        self._busy = set()
        self.table0 = self._chartable0()

    def _chartable0(self):
        for g in self.db.globals:
            if g["qn"] == "CharTable::chars" and g.get("init") and g["init"].get("k") == "init":
                a = g["init"].get("a") or []
                if a and a[0].get("k") == "int":
                    return a[0]["v"]
        return None

    def check_model(self):
        """the four facts about TokenContext the analysis assumes, read off the method bodies; returns list of problems"""
        db = self.db
        bad = []
        try:
            more = db.fn(CTX + "::more")
            peek = [f for f in db.fns(CTX + "::peek")]
            get = db.fn(CTX + "::get")
        except Exception as e:      # anchor lost
            return ["TokenContext::more/peek/get not found (%s)" % e]
        s = [expr_str(more, n["i"]) for n in more.all_nodes() if n["k"] == "ret"]
        if s != ["return this->c.idx < this->data.size()"]:
            bad.append("TokenContext::more() is no longer `c.idx < data.size()`: %s" % s)
        for p in peek:
            rs = [expr_str(p, n["i"]) for n in p.all_nodes() if n["k"] == "ret"]
            if not (len(rs) == 1 and rs[0].endswith(": 0") and ("this->more()" in rs[0] or "< this->data.size()" in rs[0])):
                bad.append("TokenContext::peek no longer returns 0 past the end: %s" % rs)
        rs = [n for n in get.all_nodes() if n["k"] == "ret"]
        zero = [n for n in rs if expr_str(get, n["i"]) == "return 0"]
        ok = False
        for z in zero:
            cs = [(expr_str(get, cn), pol) for cn, pol in get.guard_conds(get.nblock[z["i"]]) if cn is not None]
            if ("this->more()", False) in cs:
                ok = True
        incs = [n for n in get.all_nodes() if n["k"] == "un" and n.get("op") == "++" and "idx" in expr_str(get, n["i"])]
        for n in incs:
            cs = [(expr_str(get, cn), pol) for cn, pol in get.guard_conds(get.nblock[n["i"]]) if cn is not None]
            if ("this->more()", True) not in cs:
                ok = False
        if not ok:
            bad.append("TokenContext::get() no longer returns 0 without advancing when !more()")
        if self.table0 is None:
            bad.append("initialiser of CharTable::chars not found")
        return bad

    # ---------------------------------------------------------------------------------------------------
    def call_const(self, g, args, depth):
        """evaluate function g on constant arguments (abstract execution of its CFG); U if not a single value"""
        key = (g.key, tuple(args))
        if key in self._memo:
            return self._memo[key]
        if key in self._busy or depth > 4:
            return U
        self._busy.add(key)
        env = {}
        for p, a in zip(g.d.get("params", ()), args):
            if a is not U:
                env[p["n"]] = a
        rets = set()
        seen = set()
        dq = deque([g.entry])
        ok = True
        while dq:
            b = dq.popleft()
            if b in seen:
                continue
            seen.add(b)
            for n in g.blocks[b]["n"]:
                if n["k"] == "ret" and n.get("a"):
                    rets.add(self.eval(g, n["a"][0], env, depth + 1))
                if n["k"] == "asg" or (n["k"] == "un" and n.get("op") in ("++", "--")):
                    t = g.nodes.get(n["a"][0])
                    if t is not None and t["k"] == "ref" and t.get("n") in env:
                        ok = False          # a parameter is modified: not a pure function of its arguments
            ss = g.succ[b]
            t = g.blocks[b].get("term")
            if t and len(ss) == 2 and t["k"] not in ("SwitchStmt", "CXXForRangeStmt") and t.get("lc", t.get("c")) is not None:
                v = as_bool(self.eval(g, t.get("lc", t.get("c")), env, depth + 1))
                if v is T:
                    ss = [ss[0]]
                elif v is F:
                    ss = [ss[1]]
            for s in ss:
                if s >= 0:
                    dq.append(s)
        self._busy.discard(key)
        res = U
        if ok and len(rets) == 1:
            res = rets.pop()
        elif ok and rets and all(r is not U for r in rets) and len(set(as_bool(r) for r in rets)) == 1:
            res = as_bool(next(iter(rets)))
        self._memo[key] = res
        return res

    def eval(self, f, i, env, depth=0):
        n = f.nodes.get(i)
        if n is None:
            return U
        k = n["k"]
        if k == "int":
            return I(n["v"])
        if k == "chr":
            return I(n["v"])
        if k == "bool":
            return bool(n["v"])
        if k == "null":
            return I(0)
        if k == "cast":
            return self.eval(f, n["a"][0], env, depth)
        if k == "ref":
            if n.get("d") in ("lv", "pv") and n["n"] in env:
                return env[n["n"]]
            if n.get("d") == "ec" and n.get("v") is not None:
                return I(n["v"])
            return U
        if k == "idx":
            base = f.nodes.get(n["a"][0]) if n.get("a") else None
            ix = self.eval(f, n["a"][1], env, depth) if n.get("a") and len(n["a"]) > 1 else U
            if base is not None and expr_str(f, base["i"]) in ("chars", "CharTable::chars") and is_int(ix) and ix[1] == 0 and self.table0 is not None:
                return I(self.table0)
            return U
        if k == "un":
            v = self.eval(f, n["a"][0], env, depth)
            if n["op"] == "!":
                return k_not(as_bool(v))
            if n["op"] == "-" and is_int(v):
                return I(-v[1])
            return U
        if k == "bin":
            op = n["op"]
            if op in ("&&", "||"):
                a = as_bool(self.eval(f, n["a"][0], env, depth))
                if op == "&&" and a is F:
                    return F
                if op == "||" and a is T:
                    return T
                b = as_bool(self.eval(f, n["a"][1], env, depth))
                return k_and(a, b) if op == "&&" else k_or(a, b)
            a = self.eval(f, n["a"][0], env, depth)
            b = self.eval(f, n["a"][1], env, depth)
            if a in (T, F):
                a = I(1 if a else 0)
            if b in (T, F):
                b = I(1 if b else 0)
            if is_int(a) and is_int(b):
                x, y = a[1], b[1]
                if op == "==":
                    return x == y
                if op == "!=":
                    return x != y
                if op == "<":
                    return x < y
                if op == ">":
                    return x > y
                if op == "<=":
                    return x <= y
                if op == ">=":
                    return x >= y
                if op == "+":
                    return I(x + y)
                if op == "-":
                    return I(x - y)
                if op == "&":
                    return I(x & y)
                if op == "|":
                    return I(x | y)
            if op == "&" and ((is_int(a) and a[1] == 0) or (is_int(b) and b[1] == 0)):
                return I(0)
            return U
        if k == "asg" and n["op"] == "=":
            return self.eval(f, n["a"][1], env, depth)
        if k == "cond":
            c = as_bool(self.eval(f, n["a"][0], env, depth))
            if c is T:
                return self.eval(f, n["a"][1], env, depth)
            if c is F:
                return self.eval(f, n["a"][2], env, depth)
            a, b = self.eval(f, n["a"][1], env, depth), self.eval(f, n["a"][2], env, depth)
            return a if a == b and a is not U else U
        if k == "call":
            c = n.get("c") or ""
            if c == CTX + "::more":
                return F
            if c in (CTX + "::peek", CTX + "::get"):
                return I(0)
            if c == CTX + "::expect":
                a = self.eval(f, n["a"][0], env, depth) if n.get("a") else U
                return (a[1] == 0) if is_int(a) else U
            base = c.split("::")[-1]
            if c in LIBC_ZERO or (c.startswith("std::") and base in LIBC_ZERO):
                a = self.eval(f, n["a"][0], env, depth) if n.get("a") else U
                if is_int(a) and a[1] == 0:
                    return I(LIBC_ZERO[base])
                return U
            g = self.db.func_of_call(f, n)
            if g is not None and not n.get("virt") and "o" not in n or (g is not None and g.d.get("smeth")):
                args = [self.eval(f, a, env, depth) for a in n.get("a", ())]
                if args and all(a is not U for a in args) and len(args) == len(g.d.get("params", ())):
                    return self.call_const(g, args, depth)
            return U
        return U

    # ---------------------------------------------------------------------------------------------------
    def steady_env(self, f, body):
        """locals assigned in the loop body only from expressions that are constants at EOF -> that constant"""
        assigns = {}
        impure = set()
        for b in body:
            for n in f.blocks[b]["n"]:
                if n["k"] == "asg":
                    t = f.nodes.get(n["a"][0])
                    if t is not None and t["k"] == "ref" and t.get("d") in ("lv", "pv"):
                        if n["op"] == "=":
                            assigns.setdefault(t["n"], []).append(n["a"][1])
                        else:
                            impure.add(t["n"])
                elif n["k"] == "un" and n.get("op") in ("++", "--"):
                    t = f.nodes.get(n["a"][0])
                    if t is not None and t["k"] == "ref":
                        impure.add(t["n"])
                elif n["k"] == "decl":
                    for v in n.get("vars", ()):
                        if "init" in v and v["init"] is not None:
                            assigns.setdefault(v["n"], []).append(v["init"])
                elif n["k"] == "un" and n.get("op") == "&":
                    t = f.nodes.get(n["a"][0])
                    if t is not None and t["k"] == "ref":
                        impure.add(t["n"])
        env = {}
        cand = set(assigns) - impure
        changed = True
        vals = {}
        while changed:
            changed = False
            env = {v: vals[v] for v in cand if v in vals}
            for v in list(cand):
                vs = set(self.eval(f, rhs, env) for rhs in assigns[v])
                if len(vs) == 1 and U not in vs:
                    x = vs.pop()
                    if vals.get(v) != x:
                        vals[v] = x
                        changed = True
                else:
                    cand.discard(v)
                    if v in vals:
                        del vals[v]
                    changed = True
        return {v: vals[v] for v in cand if v in vals}

    def consumes(self, f, body):
        for b in body:
            for n in f.blocks[b]["n"]:
                if n["k"] == "call" and (n.get("c") or "") in (CTX + "::get", CTX + "::peek", CTX + "::expect", CTX + "::more"):
                    return True
        return False

    def analyse_loop(self, f, header, body):
        if not self.consumes(f, body):
            return None
        env = self.steady_env(f, body)
        seen = set()
        dq = deque([header])
        back = False
        while dq:
            b = dq.popleft()
            if b in seen:
                continue
            seen.add(b)
            if f.blocks[b].get("nr"):
                return None
            for n in f.blocks[b]["n"]:
                if n["k"] == "ret":
                    return None
            ss = list(enumerate(f.succ[b]))
            t = f.blocks[b].get("term")
            if t and len(f.succ[b]) == 2 and t["k"] not in ("SwitchStmt", "CXXForRangeStmt") and t.get("lc", t.get("c")) is not None:
                v = as_bool(self.eval(f, t.get("lc", t.get("c")), env))
                if v is T:
                    ss = [ss[0]]
                elif v is F:
                    ss = [ss[1]]
            for i, s in ss:
                if s < 0:
                    continue
                if s == header:
                    back = True
                    continue
                if s not in body:
                    return None
                dq.append(s)
        if back:
            t = f.blocks[header].get("term")
            return {"env": {k: (v[1] if is_int(v) else v) for k, v in env.items()},
                    "header_line": (t or {}).get("l") or (f.blocks[header]["n"][0]["l"] if f.blocks[header]["n"] else f.l0),
                    "cond": expr_str(f, t.get("c")) if t and t.get("c") is not None else "(do-while/for body)"}
        return None
