"""A11: which tokenizer loops can copy a given input character into chunk text.

Three-valued exploration (uv/eofwalk.py's evaluator) of a function's CFG under the bindings

    TokenContext::more() = true, get() = peek() = peek(0) = c   (peek(k > 0) unknown),
    CharTable::chars[c] from the table's initialiser, libc character classes at c, small pure helpers evaluated on constants,
    locals follow their assignments along the path (states are joined per block by their environment, bounded),

starting at every loop header that encloses the site (the iteration in which the character c is read; a site outside any
loop copies a character its caller has already classified and is not examined).  `reaches(f, site, avoid_blocks)` says whether the site is reachable through conditions that are not definitely
false without entering one of the blocks to avoid.  Unknown conditions count as "may pass".
"""
from collections import deque

from .eofwalk import EofWalk, I, is_int, as_bool, T, F, U, CTX

LIBC_AT = {10: {"isspace": 1, "isblank": 0}, 13: {"isspace": 1, "isblank": 0}}
LIBC_ALL = ("isspace", "isprint", "isalpha", "isalnum", "isxdigit", "isdigit", "isupper", "islower", "ispunct", "isgraph", "isblank")


class CharWalk(EofWalk):
    def __init__(self, db, ch, chars=None):
        EofWalk.__init__(self, db)
        self.ch = ch
        self.chars = chars

    def eval(self, f, i, env, depth=0):
        n = f.nodes.get(i)
        if n is not None and n["k"] == "call":
            c = n.get("c") or ""
            if c == CTX + "::more":
                return T
            if c == CTX + "::get":
                return I(self.ch)
            if c == CTX + "::peek":
                if not n.get("a"):
                    return I(self.ch)
                a = self.eval(f, n["a"][0], env, depth)
                return I(self.ch) if is_int(a) and a[1] == 0 else U
            if c == CTX + "::expect":
                return U
            base = c.split("::")[-1]
            if (c in LIBC_ALL or (c.startswith("std::") and base in LIBC_ALL)) and n.get("a"):
                a = self.eval(f, n["a"][0], env, depth)
                if is_int(a) and a[1] in LIBC_AT:
                    return I(LIBC_AT[a[1]].get(base, 0))
                return U
            if base in ("tolower", "toupper") and n.get("a") and (c == base or c.startswith("std::")):
                a = self.eval(f, n["a"][0], env, depth)
                return a if is_int(a) and a[1] in LIBC_AT else U
        if n is not None and n["k"] == "sizeof" and n.get("v") is not None:
            return I(n["v"])
        if n is not None and n["k"] == "bin" and n.get("op") == "/":
            a, b = self.eval(f, n["a"][0], env, depth), self.eval(f, n["a"][1], env, depth)
            return I(a[1] // b[1]) if is_int(a) and is_int(b) and b[1] != 0 else U
        if n is not None and n["k"] == "idx" and self.chars is not None and n.get("a") and len(n["a"]) > 1:
            from .facts import expr_str
            if expr_str(f, n["a"][0]) in ("chars", "CharTable::chars"):
                ix = self.eval(f, n["a"][1], env, depth)
                if is_int(ix) and 0 <= ix[1] < len(self.chars):
                    return I(self.chars[ix[1]])
                return U
        return EofWalk.eval(self, f, i, env, depth)

    def reaches(self, f, site, avoid_blocks=(), value_of=None, max_states=4000):
        """site: node id.  value_of: node id of an expression that must evaluate to the character (or unknown) at the site"""
        starts = []
        for h, body, backs in f.loops():
            if f.nblock[site] not in body:
                continue
            t = f.blocks[h].get("term")
            if t is not None and len(f.succ[h]) == 2 and any(x not in body for x in f.succ[h]):
                starts.append(h)                          # while / for: the iteration starts with the loop test
            else:
                for b in backs:                           # do-while: a further iteration starts with the test at the bottom
                    hops = 0
                    while len(f.succ[b]) < 2 and len(f.pred[b]) == 1 and hops < 4 and not f.blocks[b]["n"]:
                        b = f.pred[b][0]
                        hops += 1
                    starts.append(b)
        for s0 in starts:
            seen = set()
            dq = deque([(s0, ())])
            n_states = 0
            while dq:
                b, envt = dq.popleft()
                if (b, envt) in seen or (b in avoid_blocks and b != s0):
                    continue
                seen.add((b, envt))
                n_states += 1
                if n_states > max_states:
                    return True                           # gave up: treat as reachable (never claim unreachability without a proof)
                env = dict(envt)
                hit = False
                for n in f.blocks[b]["n"]:
                    if n["i"] == site:
                        v = self.eval(f, value_of, env) if value_of is not None else I(self.ch)
                        if v is U or (is_int(v) and v[1] == self.ch):
                            hit = True
                        break
                    if n["k"] == "decl":
                        for v in n.get("vars", ()):
                            if v.get("init") is not None:
                                env[v["n"]] = self.eval(f, v["init"], env)
                            else:
                                env.pop(v["n"], None)
                    elif n["k"] == "asg":
                        t = f.nodes.get(n["a"][0])
                        if t is not None and t["k"] == "ref" and t.get("d") in ("lv", "pv"):
                            if n["op"] == "=":
                                env[t["n"]] = self.eval(f, n["a"][1], env)
                            else:
                                env.pop(t["n"], None)
                    elif n["k"] == "un" and n.get("op") in ("++", "--"):
                        t = f.nodes.get(n["a"][0])
                        if t is not None and t["k"] == "ref":
                            env.pop(t["n"], None)
                if hit:
                    return True
                if f.blocks[b]["n"] and any(n["i"] == site for n in f.blocks[b]["n"]):
                    continue                              # the site was reached with a definitely different value
                env = {k: v for k, v in env.items() if v is not U}
                ss = list(enumerate(f.succ[b]))
                t = f.blocks[b].get("term")
                if t and len(f.succ[b]) == 2 and t["k"] not in ("SwitchStmt", "CXXForRangeStmt") and t.get("lc", t.get("c")) is not None:
                    v = as_bool(self.eval(f, t.get("lc", t.get("c")), env))
                    if v is T:
                        ss = [ss[0]]
                    elif v is F:
                        ss = [ss[1]]
                envt2 = tuple(sorted((k, v) for k, v in env.items()))
                for i, s in ss:
                    if s >= 0:
                        dq.append((s, envt2))
        return False
