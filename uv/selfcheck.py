"""Positive examples for rules whose expected instance count on the repository is zero: each example is parsed by
the same extractor on every run and must match, otherwise the rule would pass vacuously forever."""
import json
import os
import re
import subprocess
import tempfile

from .prep import VERIF, UVFACTS, AnalysisBroken
from .facts import Func

_cache = {}


def funcs_of(name):
    if name in _cache:
        return _cache[name]
    src = os.path.join(VERIF, "selftest", "positive", name + ".cpp")
    with tempfile.TemporaryDirectory() as d:
        out = os.path.join(d, "o.json")
        r = subprocess.run([UVFACTS, "--out", out, "--root", os.path.dirname(src) + "/", src, "--", "-std=gnu++11", "-w"],
                           stdout=subprocess.PIPE, stderr=subprocess.STDOUT, text=True)
        if r.returncode != 0 or not os.path.exists(out):
            raise AnalysisBroken("positive example %s failed to parse: %s" % (name, r.stdout[-400:]))
        data = json.load(open(out))
    fs = []
    for f in data["functions"]:
        f["key"] = f["m"] or f["qn"]
        fs.append(Func(f))
    _cache[name] = fs
    return fs


def positive(name):
    fs = funcs_of(name)
    if name == "pointer_order":
        cmp_ok = any(x["k"] == "bin" and x.get("pp") and x["op"] == "<" for f in fs for x in f.nodes.values())
        pat = re.compile(r"(map|set|multimap|multiset)<[^,<>]*\*")
        rng_ok = False
        for f in fs:
            for x in f.nodes.values():
                if x["k"] == "decl":
                    for v in x["vars"]:
                        if v["n"].startswith("__range") and "init" in v:
                            o = f.nodes.get(v["init"])
                            if o is not None and pat.search(o.get("t", "") or ""):
                                rng_ok = True
        return cmp_ok and rng_ok
    raise AnalysisBroken("unknown positive example %s" % name)
