"""A10: interval facts for buffer writes.  For an expression at a program point, an upper and a lower bound derived from

  * integer literals, sizeof, const locals/globals with a literal initialiser,
  * the dominating branch facts of the point (`e < c`, `e <= c`, `e >= c`, `e > c`, `e == c` and their negations, where
    e is compared as printed text - used for pure expressions such as `pc->Len()`, `argLength`),
  * the template bounds of BoundedOption<unsigned, MIN, MAX> for a value read from an option,
  * the loop-exit fact of a `while (x >= c)` loop (dominating false edge),
  * `+`, `-` (with the lower bound of the minuend), `*` by a literal, min/max,
  * a local whose single reaching definition is one of the above.

Unsigned subtraction `a - b` additionally yields an *underflow obligation*: lb(a) >= ub(b).
Anything else is unbounded (None): the rule that asks must then fail or be excepted - never assume.
"""
import re

from .facts import expr_str
from .flow import ReachingDefs, var_id

INF = None
_RD = {}


class Bounds(object):
    def __init__(self, db, f, at):
        self.db = db
        self.f = f
        self.at = at
        self.rd = _RD.get(f.key)
        if self.rd is None:
            if len(_RD) > 64:
                _RD.clear()
            self.rd = _RD[f.key] = ReachingDefs(f, db)
        self.facts = []
        for cn, pol in f.guard_conds(f.nblock[at]):
            if cn is None or not isinstance(pol, bool):
                continue
            c = f.nodes.get(cn)
            if c is None or c["k"] != "bin" or c.get("op") not in ("<", "<=", ">", ">=", "==", "!="):
                continue
            self.facts.append((c, pol))
        self.underflow = []
        self._busy = set()

    # relation facts about the printed expression s: returns (lb, ub) refinements
    def _from_facts(self, s):
        lb, ub = None, None
        ne0 = False
        for c, pol in self.facts:
            l, r = expr_str(self.f, c["a"][0]), expr_str(self.f, c["a"][1])
            op = c["op"]
            if not pol:
                op = {"<": ">=", "<=": ">", ">": "<=", ">=": "<", "==": "!=", "!=": "=="}[op]
            other = None
            shift = 0
            if l == s:
                other = c["a"][1]
            elif r == s:
                other = c["a"][0]
                op = {"<": ">", "<=": ">=", ">": "<", ">=": "<=", "==": "==", "!=": "!="}[op]
            else:
                # `s + k OP other` / `s - k OP other` with a literal k: the fact bounds s against other -/+ k
                for side, oth, flip in ((c["a"][0], c["a"][1], False), (c["a"][1], c["a"][0], True)):
                    sn = self.f.nodes.get(side)
                    while sn is not None and sn["k"] == "cast":
                        sn = self.f.nodes.get(sn["a"][0])
                    if sn is not None and sn["k"] == "bin" and sn["op"] in ("+", "-") and expr_str(self.f, sn["a"][0]) == s \
                            and (self.f.nodes.get(sn["a"][1]) or {}).get("k") == "int":
                        k0 = self.f.nodes[sn["a"][1]]["v"]
                        shift = -k0 if sn["op"] == "+" else k0
                        other = oth
                        if flip:
                            op = {"<": ">", "<=": ">=", ">": "<", ">=": "<=", "==": "==", "!=": "!="}[op]
                        break
            if other is None:
                continue
            key = ("f", c["i"])
            if key in self._busy:
                continue
            self._busy.add(key)
            try:
                olb, oub = self.interval(other)
            finally:
                self._busy.discard(key)
            if shift:
                olb = olb + shift if olb is not None else None
                oub = oub + shift if oub is not None else None
            if op == "<" and oub is not None:
                ub = oub - 1 if ub is None else min(ub, oub - 1)
            elif op == "<=" and oub is not None:
                ub = oub if ub is None else min(ub, oub)
            elif op == ">" and olb is not None:
                lb = olb + 1 if lb is None else max(lb, olb + 1)
            elif op == ">=" and olb is not None:
                lb = olb if lb is None else max(lb, olb)
            elif op == "==":
                if oub is not None:
                    ub = oub if ub is None else min(ub, oub)
                if olb is not None:
                    lb = olb if lb is None else max(lb, olb)
            elif op == "!=" and olb == 0 and oub == 0:
                ne0 = True
        if ne0 and (lb is None or lb < 1) and self._unsigned_text(s):
            lb = 1                                    # an unsigned value that is not 0
        return lb, ub

    def _unsigned_text(self, s):
        for n in self.f.nodes.values():
            if n["k"] in ("ref", "call") and expr_str(self.f, n["i"]) == s:
                return self._is_unsigned_expr(n["i"])
        return False

    def interval(self, i, depth=0):
        """(lb, ub) with None = unknown on that side; unsigned typed expressions get lb 0"""
        f = self.f
        n = f.nodes.get(i)
        if n is None or depth > 12:
            return (None, None)
        k = n["k"]
        if k in ("int", "chr"):
            return (n["v"], n["v"])
        if k == "sizeof" and "v" in n:
            return (n["v"], n["v"])
        if k == "cast":
            return self.interval(n["a"][0], depth + 1)
        s = expr_str(f, i)
        flb, fub = self._from_facts(s)
        lb, ub = None, None
        unsigned = (n.get("t") or "").replace("const ", "") in ("size_t", "unsigned long", "unsigned int", "unsigned", "UINT32", "uint32_t", "unsigned char", "UINT8")
        if k == "ref":
            if n.get("d") == "ec" and n.get("v") is not None:
                return (n["v"], n["v"])
            if n.get("d") in ("lv", "pv", "sl"):
                defs = list(self.rd.at(self.at, var_id(n))) if n.get("d") != "sl" else []
                if len(defs) == 1 and defs[0][0] in ("decl", "asg"):
                    rhs = self.rd.rhs_of(defs[0])
                    key = ("d", rhs)
                    if rhs is not None and key not in self._busy and (defs[0][0] == "decl" or (f.nodes[defs[0][1]["i"]].get("op") == "=")):
                        self._busy.add(key)
                        try:
                            lb, ub = self.interval(rhs, depth + 1)
                        finally:
                            self._busy.discard(key)
                unsigned = unsigned or (n.get("t") or "").replace("const ", "") in ("size_t", "unsigned long", "unsigned int", "UINT32")
            if n.get("d") in ("gv", "sv") and (n.get("t") or "").startswith("const"):
                for g in self.db.globals:
                    if g["qn"] == n.get("qn") and (g.get("init") or {}).get("k") == "int":
                        return (g["init"]["v"], g["init"]["v"])
        elif k == "bin":
            op = n["op"]
            a = self.interval(n["a"][0], depth + 1)
            b = self.interval(n["a"][1], depth + 1)
            if op == "+":
                lb = a[0] + b[0] if a[0] is not None and b[0] is not None else None
                ub = a[1] + b[1] if a[1] is not None and b[1] is not None else None
            elif op == "-":
                ub = a[1] - b[0] if a[1] is not None and b[0] is not None else None
                lb = a[0] - b[1] if a[0] is not None and b[1] is not None else None
                t = (f.nodes.get(n["a"][0]) or {}).get("t") or n.get("t") or ""
                if self._is_unsigned_expr(n["a"][0]) or self._is_unsigned_expr(n["a"][1]):
                    # the relation facts may bound the minuend against the subtrahend directly (`a >= b` / `b <= a`)
                    proved = (a[0] is not None and b[1] is not None and a[0] >= b[1]) or self._rel_ge(n["a"][0], n["a"][1])
                    self.underflow.append((i, proved, a, b))
                    if not proved:
                        ub = None
                    if lb is not None and lb < 0:
                        lb = 0
            elif op == "*":
                if a[0] is not None and b[0] is not None and a[1] is not None and b[1] is not None and a[0] >= 0 and b[0] >= 0:
                    lb, ub = a[0] * b[0], a[1] * b[1]
            elif op == "/" and b[0] is not None and b[0] > 0 and a[1] is not None:
                ub = a[1] // b[0]
                lb = 0 if a[0] is not None and a[0] >= 0 else None
            elif op == "&" and b[0] is not None and b[0] == b[1] and b[0] >= 0:
                lb, ub = 0, b[0]
            elif op == "%" and b[1] is not None and b[1] > 0:
                lb, ub = 0, b[1] - 1
        elif k == "un" and n.get("op") in ("++", "--") and n.get("post"):
            # value of a postfix increment/decrement: the operand's value before it
            save = self.at
            self.at = n["i"]                          # reaching definitions in front of the increment itself
            try:
                return self.interval(n["a"][0], depth + 1)
            finally:
                self.at = save
        elif k == "cond":
            # each arm is evaluated under the condition that selects it
            cn = f.nodes.get(n["a"][0])
            while cn is not None and cn["k"] == "cast":
                cn = f.nodes.get(cn["a"][0])
            push = cn is not None and cn["k"] == "bin" and cn.get("op") in ("<", "<=", ">", ">=", "==", "!=")
            if push:
                self.facts.append((cn, True))
            try:
                a = self.interval(n["a"][1], depth + 1)
            finally:
                if push:
                    self.facts.pop()
            if push:
                self.facts.append((cn, False))
            try:
                b = self.interval(n["a"][2], depth + 1)
            finally:
                if push:
                    self.facts.pop()
            lb = min(a[0], b[0]) if a[0] is not None and b[0] is not None else None
            ub = max(a[1], b[1]) if a[1] is not None and b[1] is not None else None
        elif k == "call":
            c = n.get("c") or ""
            if c.startswith("uncrustify::Option<") or c.startswith("uncrustify::BoundedOption<"):
                unsigned = True
            m = re.match(r"uncrustify::options::(\w+)$", c) or None
            o = f.nodes.get(n.get("o")) if "o" in n else None
            if o is not None and o["k"] == "ref":
                for g in self.db.globals:
                    if g["qn"] == o.get("qn"):
                        mm = re.search(r"BoundedOption<unsigned int, (\d+), (\d+)>", g.get("t") or "")
                        if mm:
                            lb, ub = int(mm.group(1)), int(mm.group(2))
            base = c.split("::")[-1]
            if base in ("min",) and len(n.get("a", ())) == 2:
                a = self.interval(n["a"][0], depth + 1)
                b = self.interval(n["a"][1], depth + 1)
                cands = [x for x in (a[1], b[1]) if x is not None]
                ub = min(cands) if cands else None
            if base in ("Len", "size", "length", "strlen"):
                unsigned = True
            if c == "strlen" and n.get("a"):
                y = f.nodes.get(n["a"][0])
                while y is not None and y["k"] == "cast":
                    y = f.nodes.get(y["a"][0])
                if y is not None and y["k"] == "str":
                    return (len(y["v"]), len(y["v"]))
        if flb is not None:
            lb = flb if lb is None else max(lb, flb)
        if fub is not None:
            ub = fub if ub is None else min(ub, fub)
        if unsigned and (lb is None or lb < 0):
            lb = 0
        return (lb, ub)

    def _is_unsigned_expr(self, i):
        n = self.f.nodes.get(i)
        while n is not None and n["k"] == "cast":
            n = self.f.nodes.get(n["a"][0])
        if n is None:
            return False
        t = (n.get("t") or "").replace("const ", "")
        if t in ("size_t", "unsigned long", "unsigned int", "unsigned", "UINT32", "uint32_t"):
            return True
        if n["k"] == "call" and (n.get("c") or "").split("::")[-1] in ("Len", "size", "length", "strlen"):
            return True
        if n["k"] == "sizeof":
            return True
        if n["k"] == "call" and (n.get("c") or "").split("::")[-1] in ("GetColumn", "GetOrigCol", "GetOrigColEnd", "GetLevel", "GetBraceLevel",
                                                                        "GetPpLevel", "GetNlCount", "GetOrigLine", "GetColumnIndent"):
            return True                      # size_t accessors of Chunk
        if n["k"] == "bin" and n["op"] in ("+", "-", "*"):
            return self._is_unsigned_expr(n["a"][0]) or self._is_unsigned_expr(n["a"][1])
        return False

    def _rel_ge(self, a, b):
        """do the dominating facts say a >= b (as printed text)?"""
        sa, sb = expr_str(self.f, a), expr_str(self.f, b)
        for c, pol in self.facts:
            l, r = expr_str(self.f, c["a"][0]), expr_str(self.f, c["a"][1])
            op = c["op"]
            if not pol:
                op = {"<": ">=", "<=": ">", ">": "<=", ">=": "<", "==": "!=", "!=": "=="}[op]
            if l == sa and r == sb and op in (">=", ">", "=="):
                return True
            if l == sb and r == sa and op in ("<=", "<", "=="):
                return True
        return False
