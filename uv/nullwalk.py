"""A7: sentinel-walk divergence.  Three-valued abstract interpretation of loops that advance a `Chunk *` cursor with
the navigation family, under the hypothesis cursor == NullChunk (a fixed point of that family).

  * NAV      = const Chunk methods returning `Chunk *` whose every returned value is, assuming `this` is the null chunk,
               again the null chunk (this, NullChunkPtr, m_next/m_prev of such a value, a NAV call on such a value);
               computed as a greatest fixed point over the method bodies - not a hand-written list.
  * TRUTH    = value of each const bool Chunk method on the null chunk, derived by evaluating its body with
               this->m_nullChunk = true (Is(x) -> false, IsNot(x) -> true, IsNewline() -> false, ...); methods that read
               other fields evaluate to unknown.
  * a loop is reported only if, with every cursor variable equal to the null chunk, no exit edge is reachable through
    conditions that are not definitely false while the back edge is.
"""
from collections import deque

from .facts import expr_str, walk

T, F, U = True, False, None
NULL = ("ptr", "NULL")
NONNULL = ("ptr", "nonnull")


def k_not(a):
    return U if a is U else (not a)


def k_and(a, b):
    if a is F or b is F:
        return F
    if a is T and b is T:
        return T
    return U


def k_or(a, b):
    if a is T or b is T:
        return T
    if a is F and b is F:
        return F
    return U


def is_chunk_ptr(t):
    t = (t or "").replace("const ", "").replace(" const", "").strip()
    return t in ("Chunk *", "Chunk *&", "class Chunk *")


class NullWalk(object):
    def __init__(self, db):
        self.db = db
        self.chunk_methods = {}
        for f in db.funcs.values():
            if f.d.get("cls") == "Chunk":
                self.chunk_methods.setdefault(f.qn, []).append(f)
        self._truth = {}
        self._in_progress = set()
        self.nav = self._compute_nav()

    # ------------------------------------------------------------------ NAV closure -------------
    def _ret_nodes(self, f):
        return [n for n in f.all_nodes() if n["k"] == "ret" and n.get("a")]

    def _compute_nav(self):
        cand = {}
        for qn, fs in self.chunk_methods.items():
            for f in fs:
                if is_chunk_ptr(f.d.get("ret")) and f.d["sig"].endswith("const") and not f.d.get("smeth"):
                    cand[f.key] = f
        names = set(f.qn for f in cand.values())
        changed = True
        while changed:
            changed = False
            for k, f in list(cand.items()):
                if not self._closed_function(f, names):
                    del cand[k]
                    names = set(g.qn for g in cand.values())
                    changed = True
        return names

    def _closed_function(self, f, names):
        # locals of pointer type: all assignments must be closed
        closed_locals = set()
        assigns = {}
        for n in f.all_nodes():
            if n["k"] == "decl":
                for v in n["vars"]:
                    if is_chunk_ptr(v["t"]):
                        assigns.setdefault(v["n"], []).append(v.get("init"))
            elif n["k"] == "asg" and n["op"] == "=":
                t = f.nodes.get(n["a"][0])
                if t is not None and t["k"] == "ref" and t.get("d") == "lv" and is_chunk_ptr(t.get("t")):
                    assigns.setdefault(t["n"], []).append(n["a"][1])
        closed_locals = set(assigns)
        changed = True
        while changed:
            changed = False
            for v in list(closed_locals):
                for rhs in assigns[v]:
                    if rhs is None or not self._closed_expr(f, rhs, names, closed_locals):
                        closed_locals.discard(v)
                        changed = True
                        break
        rets = self._ret_nodes(f)
        if not rets:
            return False
        return all(self._closed_expr(f, r["a"][0], names, closed_locals) for r in rets)

    def _ptm_targets_ok(self, names):
        for tgt, sites in self.db.address_taken().items():
            g = self.db.funcs.get(tgt)
            if g is not None and g.d.get("cls") == "Chunk" and is_chunk_ptr(g.d.get("ret")) and g.qn not in names:
                return False
        return True

    def _closed_expr(self, f, i, names, closed_locals):
        n = f.nodes.get(i)
        if n is None:
            return False
        k = n["k"]
        if k == "this":
            return True
        if k == "cast":
            return self._closed_expr(f, n["a"][0], names, closed_locals)
        if k == "ref":
            if n.get("d") == "lv":
                return n["n"] in closed_locals
            return n.get("qn") in ("Chunk::NullChunkPtr",)
        if k == "mem":
            if n["n"] in ("m_next", "m_prev"):
                return self._closed_expr(f, n["b"], names, closed_locals)
            return False
        if k == "cond":
            return self._closed_expr(f, n["a"][1], names, closed_locals) and self._closed_expr(f, n["a"][2], names, closed_locals)
        if k == "call":
            if not n.get("c") and "o" in n and is_chunk_ptr(n.get("t")) and not n.get("fp"):
                # call through a pointer to member function, `(pc->*searchFnPtr)(scope)`: closed if the receiver is and
                # every Chunk method whose address is taken and that returns Chunk* is itself a candidate
                return self._ptm_targets_ok(names) and self._closed_expr(f, n["o"], names, closed_locals)
            if n.get("c") in names and "o" in n:
                return self._closed_expr(f, n["o"], names, closed_locals)
            if n.get("c") in names and "o" not in n:
                return False
            if "fp" in n or n.get("k2") == "CXXMemberCallExpr":
                return False
        if k == "other" and n.get("k2") in ("BinaryOperator",):
            return False
        # call through a pointer to member function: (pc->*searchFnPtr)(scope)
        if k == "call" and n.get("fp") is not None:
            fp = f.nodes.get(n["fp"])
            if fp is not None and fp["k"] == "bin" and fp["op"] in ("->*", ".*"):
                return self._closed_expr(f, fp["a"][0], names, closed_locals)
        return False

    # ------------------------------------------------------------------ TRUTH on the null chunk ----
    def truth(self, qn):
        """value of const bool method qn evaluated on the null chunk: True / False / None(unknown)"""
        if qn in self._truth:
            return self._truth[qn]
        if qn in self._in_progress:
            return U
        self._in_progress.add(qn)
        res = U
        fs = [f for f in self.chunk_methods.get(qn, []) if f.d.get("ret") == "bool" and f.d["sig"].endswith("const")]
        if len(fs) >= 1:
            vals = set()
            for f in fs:
                vals.add(self._exec_bool(f))
            if len(vals) == 1:
                res = vals.pop()
        self._in_progress.discard(qn)
        self._truth[qn] = res
        return res

    def _exec_bool(self, f):
        """abstractly execute f with this = null chunk; returns the common returned truth value or None"""
        rets = set()
        seen = set()
        dq = deque([f.entry])
        env = {"this": NULL}
        while dq:
            b = dq.popleft()
            if b in seen:
                continue
            seen.add(b)
            for n in f.blocks[b]["n"]:
                if n["k"] == "ret" and n.get("a"):
                    rets.add(self.eval(f, n["a"][0], env))
            ss = f.succ[b]
            t = f.blocks[b].get("term")
            if t and len(ss) == 2 and t.get("lc", t.get("c")) is not None:
                v = self.eval(f, t.get("lc", t.get("c")), env)
                if v is T:
                    ss = [ss[0]]
                elif v is F:
                    ss = [ss[1]]
            for s in ss:
                if s >= 0:
                    dq.append(s)
        if len(rets) == 1:
            v = rets.pop()
            return v if v in (T, F) else U
        return U

    # ------------------------------------------------------------------ expression evaluation -------
    def eval(self, f, i, env):
        """env: name -> NULL for variables known to be the null chunk ('this' for the receiver).
        returns True/False/None for booleans, NULL/NONNULL/None for pointers"""
        n = f.nodes.get(i)
        if n is None:
            return U
        k = n["k"]
        if k == "bool":
            return bool(n["v"])
        if k == "int":
            return U
        if k == "null":
            return ("ptr", "nullptr")
        if k == "this":
            return env.get("this", U)
        if k == "cast":
            return self.eval(f, n["a"][0], env)
        if k == "ref":
            if n.get("d") in ("lv", "pv") and n["n"] in env:
                return env[n["n"]]
            if n.get("qn") == "Chunk::NullChunkPtr":
                return NULL
            return U
        if k == "mem":
            b = self.eval(f, n["b"], env)
            if b == NULL:
                if n["n"] == "m_nullChunk":
                    return T
                if n["n"] in ("m_next", "m_prev"):
                    return NULL
            return U
        if k == "un" and n["op"] == "!":
            v = self.eval(f, n["a"][0], env)
            if isinstance(v, tuple):
                return F if v[1] in ("NULL", "nonnull") else (T if v[1] == "nullptr" else U)
            return k_not(v)
        if k == "bin":
            op = n["op"]
            if op in ("&&", "||"):
                a = self._as_bool(self.eval(f, n["a"][0], env))
                b = self._as_bool(self.eval(f, n["a"][1], env))
                return k_and(a, b) if op == "&&" else k_or(a, b)
            if op in ("==", "!="):
                a = self.eval(f, n["a"][0], env)
                b = self.eval(f, n["a"][1], env)
                if isinstance(a, tuple) and isinstance(b, tuple):
                    eq = U
                    if a == b and a[1] in ("NULL", "nullptr"):
                        eq = T
                    elif {a[1], b[1]} == {"NULL", "nullptr"} or {a[1], b[1]} == {"NULL", "nonnull"}:
                        eq = F
                    return eq if op == "==" else k_not(eq)
            return U
        if k == "asg" and n["op"] == "=":
            # value of an assignment used as a condition: the assigned pointer
            return self.eval(f, n["a"][1], env)
        if k == "cond":
            c = self._as_bool(self.eval(f, n["a"][0], env))
            if c is T:
                return self.eval(f, n["a"][1], env)
            if c is F:
                return self.eval(f, n["a"][2], env)
            a, b = self.eval(f, n["a"][1], env), self.eval(f, n["a"][2], env)
            return a if a == b else U
        if k == "call":
            c = n.get("c") or ""
            if "o" in n:
                recv = self.eval(f, n["o"], env)
            elif f.d.get("cls") == "Chunk" and c.startswith("Chunk::") and not n.get("fp"):
                recv = env.get("this", U)
            else:
                recv = U
            if recv == NULL:
                if c in self.nav or (not c and is_chunk_ptr(n.get("t")) and "o" in n):
                    return NULL
                if c.startswith("Chunk::") and n.get("t") == "bool":
                    return self.truth(c)
            return U
        return U

    @staticmethod
    def _as_bool(v):
        if isinstance(v, tuple):
            return T if v[1] in ("NULL", "nonnull") else (F if v[1] == "nullptr" else U)
        return v

    # ------------------------------------------------------------------ loops ----------------------
    def cursors(self, f, body):
        """greatest set C of `Chunk *` locals/params assigned in the loop body only from NAV expressions over C"""
        assigns = {}
        for b in body:
            for n in f.blocks[b]["n"]:
                if n["k"] == "asg" and n["op"] == "=":
                    t = f.nodes.get(n["a"][0])
                    if t is not None and t["k"] == "ref" and t.get("d") in ("lv", "pv") and is_chunk_ptr(t.get("t")):
                        assigns.setdefault(t["n"], []).append(n["a"][1])
                elif n["k"] == "decl":
                    for v in n["vars"]:
                        if is_chunk_ptr(v["t"]) and "init" in v:
                            assigns.setdefault(v["n"], []).append(v["init"])
                elif n["k"] == "call":
                    # a cursor passed by reference/pointer may be modified by the callee: not a pure cursor
                    pass
        C = set(assigns)
        changed = True
        while changed:
            changed = False
            for v in list(C):
                for rhs in assigns[v]:
                    if not self._nav_over(f, rhs, C):
                        C.discard(v)
                        changed = True
                        break
        # exclude variables whose address / reference escapes to a call inside the body
        for b in body:
            for n in f.blocks[b]["n"]:
                if n["k"] == "un" and n["op"] == "&":
                    t = f.nodes.get(n["a"][0])
                    if t is not None and t["k"] == "ref" and t["n"] in C:
                        C.discard(t["n"])
                if n["k"] == "call" and n.get("c"):
                    tgt = self.db.func_of_call(f, n)
                    if tgt is not None:
                        ps = tgt.d["params"]
                        for ai, a in enumerate(n.get("a", ())):
                            an = f.nodes.get(a)
                            if an is not None and an["k"] == "ref" and an["n"] in C and ai < len(ps) and ps[ai]["t"].replace(" ", "").endswith("*&"):
                                C.discard(an["n"])
        return C

    def _nav_over(self, f, i, C):
        n = f.nodes.get(i)
        if n is None:
            return False
        if n["k"] == "ref":
            return n.get("d") in ("lv", "pv") and n["n"] in C
        if n["k"] == "cast":
            return self._nav_over(f, n["a"][0], C)
        if n["k"] == "call" and n.get("c") in self.nav and "o" in n:
            return self._nav_over(f, n["o"], C)
        if n["k"] == "cond":
            return self._nav_over(f, n["a"][1], C) and self._nav_over(f, n["a"][2], C)
        return False

    def _rd(self, f):
        from .flow import ReachingDefs
        c = getattr(self, "_rdcache", None)
        if c is None:
            c = self._rdcache = {}
        if f.key not in c:
            c[f.key] = ReachingDefs(f, self.db)
        return c[f.key]

    def _nonnull_at(self, f, header, body, C):
        from .flow import ReachingDefs, var_id
        import re
        out = {}
        assigned = set()
        for b in body:
            for n in f.blocks[b]["n"]:
                if n["k"] == "asg":
                    t = f.nodes.get(n["a"][0])
                    if t is not None and t["k"] == "ref":
                        assigned.add(t["n"])
                elif n["k"] == "decl":
                    assigned |= set(v["n"] for v in n["vars"])
                elif n["k"] == "call":
                    for a in n.get("a", ()):
                        an = f.nodes.get(a)
                        if an is not None and an["k"] == "ref" and is_chunk_ptr(an.get("t")):
                            tgt = self.db.func_of_call(f, n)
                            ps = tgt.d["params"] if tgt is not None else None
                            ai = n["a"].index(a)
                            if ps is None or (ai < len(ps) and "&" in ps[ai]["t"] and not ps[ai]["t"].startswith("const")):
                                assigned.add(an["n"])
        rd = None
        hn = f.blocks[header]["n"]
        t = f.blocks[header].get("term")
        at = hn[0]["i"] if hn else (t.get("lc", t.get("c")) if t else None)
        if at is None:
            return out
        for cn, pol in f.guard_conds(header):
            if cn is None:
                continue
            m = re.match(r"^(\w+)->(IsNotNullChunk|IsNullChunk)\(\)$", expr_str(f, cn))
            if not m or (m.group(2) == "IsNotNullChunk") != (pol is True):
                continue
            x = m.group(1)
            if x in C or x in assigned:
                continue
            cnode = f.nodes.get(cn)
            onode = f.nodes.get(cnode.get("o")) if cnode is not None and cnode.get("k") == "call" else None
            ref = [onode] if onode is not None and onode["k"] == "ref" and onode.get("d") in ("lv", "pv") and is_chunk_ptr(onode.get("t")) else []
            if not ref:
                continue
            if rd is None:
                rd = self._rd(f)
            d1 = set(id(i[1]) for i in rd.at(cn, var_id(ref[0])))
            d2 = set(id(i[1]) for i in rd.at(at, var_id(ref[0])))
            if d1 == d2:
                out[x] = ("ptr", "nonnull")
                self._nn_ids = getattr(self, "_nn_ids", {})
                self._nn_ids[(f.key, header, x)] = var_id(ref[0])
        return out

    def _there_and_back(self, f, header, body, C, nn):
        """the cursor can only be the null chunk here if it *starts* there.  That is the case in the idiom
               E = y->GetNext...();  x = E->GetPrev...();  while (x != y) x = x->GetPrev...();
        (or mirrored) when E is not tested: for E = null chunk the way back starts at the null chunk, whose GetPrev() is the
        null chunk and not the tail of the list.  Returns True when a cursor's value at loop entry is such an E-derived chunk."""
        from .flow import ReachingDefs, var_id
        rd = self._rd(f)
        hn = f.blocks[header]["n"]
        t = f.blocks[header].get("term")
        at = hn[0]["i"] if hn else (t.get("lc", t.get("c")) if t else None)
        if at is None:
            return False

        def chain(i):
            """(root variable node, [navigation method names]) of a navigation chain"""
            names = []
            n = f.nodes.get(i)
            while n is not None:
                if n["k"] == "cast":
                    n = f.nodes.get(n["a"][0])
                elif n["k"] == "call" and n.get("c") in self.nav and "o" in n:
                    names.append(n["c"].split("::")[-1])
                    n = f.nodes.get(n["o"])
                else:
                    break
            return n, names

        def direction(names):
            d = set("next" if "Next" in x else ("prev" if "Prev" in x else "?") for x in names)
            return d.pop() if len(d) == 1 else None
        body_nodes = set(n["i"] for b in body for n in f.blocks[b]["n"])
        for x in C:
            ref = [y for b in body for z in f.blocks[b]["n"] for y in [f.nodes.get(k) for k in ([z["i"]] + list(z.get("a", ())) + ([z["o"]] if "o" in z else []))]
                   if y is not None and y["k"] == "ref" and y.get("n") == x and y.get("d") in ("lv", "pv")]
            if not ref:
                continue
            for info in rd.at(at, var_id(ref[0])):
                if info[1]["i"] in body_nodes:
                    continue
                rhs = rd.rhs_of(info)
                if rhs is None:
                    continue
                root, names = chain(rhs)
                if root is None or root["k"] != "ref" or not names or direction(names) is None:
                    continue
                e = root["n"]
                if e in nn:
                    continue
                # E's own definition: a navigation in the opposite direction from one of the chunks known to be real
                for info2 in rd.at(info[1]["i"], var_id(root)):
                    rhs2 = rd.rhs_of(info2)
                    if rhs2 is None:
                        continue
                    root2, names2 = chain(rhs2)
                    if root2 is not None and root2["k"] == "ref" and root2["n"] in nn and names2 and direction(names2) not in (None, direction(names)) \
                            and getattr(self, "_nn_ids", {}).get((f.key, header, root2["n"])) == var_id(root2):
                        # no test of (this value of) E between its definition and the loop that excludes the null chunk
                        tested = False
                        d_at_use = set(id(q[1]) for q in rd.at(info[1]["i"], var_id(root)))
                        for cn, pol in list(f.guard_conds(header)) + list(f.guard_conds(f.nblock[info[1]["i"]])):
                            c = f.nodes.get(cn) if cn is not None else None
                            if c is None or c["k"] != "call" or "o" not in c or not isinstance(pol, bool):
                                continue
                            o = f.nodes.get(c["o"])
                            if o is None or o["k"] != "ref" or o.get("n") != e or not (c.get("c") or "").startswith("Chunk::"):
                                continue
                            tv = self.truth(c["c"])
                            if tv in (T, F) and tv != pol and set(id(q[1]) for q in rd.at(cn, var_id(root))) == d_at_use:
                                tested = True
                        if not tested:
                            return True
        return False

    def analyse_loop(self, f, header, body):
        """returns None if the loop can be left at the null chunk (or has no cursor); otherwise a dict describing
        the definite divergence"""
        C = self.cursors(f, body)
        if not C:
            return None
        env = {v: NULL for v in C}
        # a chunk variable the loop does not assign and that a dominating test has shown not to be the null chunk (the
        # variable of an enclosing `while (pc->IsNotNullChunk())`) stays a real chunk: `tmp != pc` is then true for good
        nn = self._nonnull_at(f, header, body, C)
        if nn and not self._there_and_back(f, header, body, C, nn):
            nn = {}
        env.update(nn)
        # the loop must actually test or advance a cursor: require a cursor assignment inside the body
        # explore from the header under env
        seen = set()
        dq = deque([header])
        back = False
        exits = []
        unknown_exit = False
        while dq:
            b = dq.popleft()
            if b in seen:
                continue
            seen.add(b)
            if f.blocks[b].get("nr"):
                return None          # exit()/abort inside: leaves the loop
            ss = list(enumerate(f.succ[b]))
            t = f.blocks[b].get("term")
            if t and len(f.succ[b]) == 2 and t["k"] not in ("SwitchStmt", "CXXForRangeStmt") and t.get("lc", t.get("c")) is not None:
                v = self._as_bool(self.eval(f, t.get("lc", t.get("c")), env))
                if v is T:
                    ss = [ss[0]]
                elif v is F:
                    ss = [ss[1]]
            for i, s in ss:
                if s < 0:
                    continue
                if s == header:
                    back = True
                    continue
                if s not in body:
                    return None      # an exit edge is feasible (condition true or unknown)
                dq.append(s)
            for n in f.blocks[b]["n"]:
                if n["k"] == "ret":
                    return None
        if back:
            t = f.blocks[header].get("term")
            return {"cursors": sorted(C), "header_line": (t or {}).get("l") or (f.blocks[header]["n"][0]["l"] if f.blocks[header]["n"] else f.l0),
                    "cond": expr_str(f, t.get("c")) if t and t.get("c") is not None else "(do-while/for body)"}
        return None
