"""C20 Blank-line limits are respected.

Decided: the nl_max cap sits on every path of do_blank_lines() for a newline chunk (disabled regions excepted) and
really lowers the count; inside the newline loop of uncrustify_file() nothing that can raise a newline count runs after
do_blank_lines() except three reviewed calls that only lower/merge; every count-raising option is compared with nl_max
(C16.nl-max-guard); start/end-of-file handling reads only its own option family; the eat_blanks options lower the
newline next to the brace to one and veto increases.
Not decided: the numeric interplay of the ~40 blank-line options inside do_blank_lines, passes after the newline loop
that add line breaks for other reasons (code_width splitting, include grouping).
"""
import re

from ..facts import expr_str, walk, options_read, in_macro
from ..flow import ReachingDefs, var_id, provenance_options
from .common_io import UNC
from . import c16

BL = "src/newlines/blank_line.cpp"


def _conds(f, n):
    return [(expr_str(f, cn), pol) for cn, pol in f.guard_conds(f.nblock[n["i"]]) if cn is not None]


REGION_TESTS = ("prev->Is(CT_IGNORED)", "pc->GetPrev(ALL)->Is(CT_IGNORED)", "pc->GetNext(ALL)->Is(CT_IGNORED)",
                "pc->GetPrev(ALL)->Is(CT_IGNORED) || pc->GetNext(ALL)->Is(CT_IGNORED)")


def rule_cap_on_every_newline(ctx):
    db = ctx.db
    r = ctx.rule("cap-on-every-newline", "in do_blank_lines every path from the newline test to the next iteration passes the nl_max test, "
                 "except the continue for a newline that follows a disabled (CT_IGNORED) region; the test caps with blank_line_max(pc, nl_max), "
                 "which lowers the count to the option value")
    f = db.fn("do_blank_lines", file=BL)
    tests = [b for b, blk in f.blocks.items() if blk.get("term") and expr_str(f, blk["term"].get("lc", blk["term"].get("c"))) == "options::nl_max() > 0"]
    r.require(len(tests) == 1, "do_blank_lines: %d `nl_max() > 0` tests" % len(tests))
    gate = [b for b, blk in f.blocks.items() if blk.get("term") and expr_str(f, blk["term"].get("lc", blk["term"].get("c"))) == "pc->IsNot(CT_NEWLINE)"]
    r.require(len(gate) == 1, "do_blank_lines: newline gate not found")
    loops = [(h, body) for h, body, backs in f.loops() if gate[0] in body and tests[0] in body]
    r.require(loops, "do_blank_lines: chunk loop not found")
    h, body = max(loops, key=lambda x: len(x[1]))
    start = f.succ[gate[0]][1]

    def edge_ok(b, i):
        t = f.blocks[b].get("term")
        if t:
            c = t.get("lc", t.get("c"))
            # the one documented exemption: a line break next to a line of a disabled region (either neighbour)
            if c is not None and expr_str(f, c) in REGION_TESTS:
                return i == 1
        return True
    # reach the loop header again without passing the nl_max test
    from collections import deque
    seen = set()
    dq = deque([(start, (start,))])
    wit = None
    while dq:
        b, path = dq.popleft()
        if b in seen:
            continue
        seen.add(b)
        if b == tests[0]:
            continue
        if b == h:
            wit = path
            break
        for i, s in enumerate(f.succ[b]):
            if s >= 0 and edge_ok(b, i):
                dq.append((s, path + (s,)))
    r.seen(len(body))
    r.check(wit is None, "do_blank_lines/cap-on-every-path", db.loc(f, f.blocks[gate[0]]["term"]["l"]),
            "a newline chunk can pass through do_blank_lines without the nl_max test", path=["%s:%d" % (f.file, l) for l in f.path_lines(list(wit))] if wit else None)
    caps = [n for n in db.calls_in(f, "blank_line_max") if expr_str(f, n["i"]) == "blank_line_max(pc, options::nl_max)"]
    OVER = ("pc->GetNlCount() > options::nl_max()", "options::nl_max() < pc->GetNlCount()")
    r.check(len(caps) == 1 and ("options::nl_max() > 0", True) in _conds(f, caps[0]) and any((t, True) in _conds(f, caps[0]) for t in OVER),
            "do_blank_lines/cap-call", db.loc(f, caps[0] if caps else f.l0), "the nl_max test no longer calls blank_line_max(pc, options::nl_max) under count > nl_max")
    if caps:
        extra = [c for c in _conds(f, caps[0]) if c[0] not in ("options::nl_max() > 0", "pc->IsNot(CT_NEWLINE)", "prev->Is(CT_IGNORED)") + OVER + REGION_TESTS + tuple("options::nl_max() > 0 && " + t for t in OVER) + (
                                                              "pc->IsNotNullChunk()", "options::nl_max() > 0 && pc->GetNlCount() > options::nl_max()", "prev->IsNotNullChunk()")]
        r.check(not extra, "do_blank_lines/cap-unconditional", db.loc(f, caps[0]), "the cap additionally depends on %s" % extra)
    m = db.fn("blank_line_max", file=BL)
    sets = [n for n in m.all_nodes() if n["k"] == "call" and (n.get("c") or "").endswith("SetNlCount")]
    r.check(len(sets) == 1 and expr_str(m, sets[0]["a"][0]) == "optval" and ("pc->GetNlCount() > optval", True) in _conds(m, sets[0]),
            "blank_line_max/lowers-to-option", db.loc(m, m.l0), "blank_line_max no longer sets the count to the option value when it is larger")
    dv = [v for n in m.all_nodes() if n["k"] == "decl" for v in n["vars"] if v["n"] == "optval"]
    r.check(len(dv) == 1 and expr_str(m, dv[0]["init"]) == "opt()", "blank_line_max/optval-is-option", db.loc(m, m.l0), "optval is not the option's value")
    r.floor(5)


def _raisers(db):
    """functions that (transitively) can raise a newline count or create a newline chunk"""
    prim = set()
    for f in db.funcs.values():
        for n in f.nodes.values():
            if n["k"] == "call" and (n.get("c") or "") in ("Chunk::SetNlCount",) and f.d.get("cls") != "Chunk":
                prim.add(f.key)
    if db._callers is None:
        db._build_cg()
    res = set(prim)
    changed = True
    while changed:
        changed = False
        for f in db.funcs.values():
            if f.key in res:
                continue
            if any(t in res for t in db._callees.get(f.key, ())):
                res.add(f.key)
                changed = True
    return res


def _strict_raisers(db):
    """functions that (transitively) can set a newline count to something other than the literal 1 without the count being
    larger already (i.e. can raise it above one line break)"""
    prim = {}
    for f in db.funcs.values():
        if f.d.get("cls") == "Chunk":
            continue
        for n in f.nodes.values():
            if n["k"] == "call" and (n.get("c") or "") == "Chunk::SetNlCount" and n.get("a"):
                a = f.nodes.get(n["a"][0])
                while a is not None and a["k"] == "cast":
                    a = f.nodes.get(a["a"][0])
                if a is not None and a["k"] == "int" and a["v"] <= 1:
                    continue
                arg = expr_str(f, n["a"][0])
                recv = expr_str(f, n.get("o")) if "o" in n else ""
                cs = _conds(f, n)
                if ("%s->GetNlCount() > %s" % (recv, arg), True) in cs:
                    continue          # lowers
                prim.setdefault(f.key, []).append(n)
    if db._callers is None:
        db._build_cg()
    res = set(prim)
    changed = True
    while changed:
        changed = False
        for f in db.funcs.values():
            if f.key in res:
                continue
            if any(t in res for t in db._callees.get(f.key, ())):
                res.add(f.key)
                changed = True
    return res


def rule_cap_after_inserts(ctx):
    db = ctx.db
    r = ctx.rule("cap-after-inserts", "in uncrustify_file's newline loop every call that can set a newline count precedes do_blank_lines(), "
                 "except newlines_eat_start_end / newlines_functions_remove_extra_blank_lines / newlines_cleanup_dup, which only apply "
                 "the file-boundary options, lower, or take the maximum of existing counts")
    u = db.fn("uncrustify_file", file=UNC)
    dbl = db.calls_in(u, "do_blank_lines")
    r.require(len(dbl) == 1, "uncrustify_file calls do_blank_lines %d times" % len(dbl))
    dbl = dbl[0]
    loops = [(h, body) for h, body, backs in u.loops() if u.nblock[dbl["i"]] in body]
    r.require(loops, "do_blank_lines is not inside a loop of uncrustify_file")
    h, body = min(loops, key=lambda x: len(x[1]))
    raisers = _raisers(db)
    allowed_after = {"newlines_eat_start_end", "newlines_functions_remove_extra_blank_lines", "newlines_cleanup_dup", "dump_step"}
    from .c11 import gstate
    gs = gstate(db)
    n_calls = 0
    for b in body:
        for n in u.blocks[b]["n"]:
            if n["k"] != "call" or in_macro(n, "LOG_FMT"):
                continue
            ts = [t for t in gs.call_targets(u, n) if t in raisers]
            if not ts:
                continue
            n_calls += 1
            r.seen()
            if n["i"] == dbl["i"]:
                continue
            # is the call after do_blank_lines within the iteration?
            w = u.paths_avoiding(dbl["i"], lambda x: x["i"] == n["i"], lambda x: u.nblock[x["i"]] == h and u.npos[x["i"]] == 0,
                                 edge_ok=lambda bb, i: u.succ[bb][i] != h)
            after = w is not None
            name = n.get("c")
            r.check((not after) or name in allowed_after, "uncrustify_file/%s" % name, db.loc(u, n),
                    "%s() can change newline counts and runs after do_blank_lines() in the same pass: its result is never capped by nl_max" % name)
    r.require(n_calls >= 8, "only %d count-changing calls found in the newline loop" % n_calls)
    # ... and nothing that can raise a count runs after that loop, i.e. after the last do_blank_lines(), before output_text()
    outs = db.calls_in(u, "output_text")
    strict = _strict_raisers(db)
    seenb = set()
    work = [s2 for b in body for s2 in u.succ[b] if s2 >= 0 and s2 not in body]
    late = []
    while work:
        b = work.pop()
        if b in seenb:
            continue
        seenb.add(b)
        stop = False
        for n in u.blocks[b]["n"]:
            if any(n["i"] == o["i"] for o in outs):
                stop = True
                break
            if n["k"] == "call" and not in_macro(n, "LOG_FMT") and any(t in strict for t in gs.call_targets(u, n)):
                late.append(n)
        if not stop:
            work.extend(s2 for s2 in u.succ[b] if s2 >= 0)
    cnt_names = {}
    for n in sorted(late, key=lambda x: x["l"]):
        name = n.get("c")
        cnt_names[name] = cnt_names.get(name, 0) + 1
        r.seen()
        r.check(name in allowed_after, "uncrustify_file/after-last-cap/%s%s" % (name, "" if cnt_names[name] == 1 else "#%d" % cnt_names[name]), db.loc(u, n),
                "%s() can raise newline counts and runs after the last do_blank_lines() of uncrustify_file (the retry block of the code_width "
                "loop): its result is never capped by nl_max" % name)
    # the three reviewed followers
    cd = db.fn("newlines_cleanup_dup")
    for n in [x for x in cd.all_nodes() if x["k"] == "call" and (x.get("c") or "").endswith("SetNlCount")]:
        r.check(expr_str(cd, n["a"][0]).startswith("std::max(") or expr_str(cd, n["a"][0]).startswith("max("), "newlines_cleanup_dup/takes-maximum", db.loc(cd, n),
                "newlines_cleanup_dup sets `%s`" % expr_str(cd, n["a"][0]))
    fr = db.fn("newlines_functions_remove_extra_blank_lines")
    for n in [x for x in fr.all_nodes() if x["k"] == "call" and (x.get("c") or "").endswith("SetNlCount")]:
        a = expr_str(fr, n["a"][0])
        r.check(("pc->GetNlCount() > %s" % a, True) in _conds(fr, n), "newlines_functions_remove_extra_blank_lines/only-lowers", db.loc(fr, n),
                "SetNlCount(%s) is not under count > %s" % (a, a))
    r.floor(10)


def rule_guard_coverage(ctx):
    c16.rule_nl_max_guard(ctx, "guard-coverage")


def rule_eof_families(ctx):
    db = ctx.db
    r = ctx.rule("eof-families", "newlines_eat_start_end: every count it sets comes from nl_start_of_file_min on the head chunk under "
                 "nl_start_of_file conditions, or from nl_end_of_file_min on the tail chunk under nl_end_of_file conditions; both halves "
                 "only run for whole files (cpd.frag_cols == 0); no other option is read")
    f = db.fn("newlines_eat_start_end", file="src/newlines/eat_start_end.cpp")
    allopts = set()
    for n in f.all_nodes():
        if not in_macro(n, "LOG_FMT"):
            allopts |= options_read(f, n["i"]) if n["k"] == "ref" else set()
    fam = {"nl_start_of_file": "start", "nl_start_of_file_min": "start", "nl_end_of_file": "end", "nl_end_of_file_min": "end"}
    r.check(allopts <= set(fam), "options-read", db.loc(f, f.l0), "newlines_eat_start_end also reads %s" % sorted(allopts - set(fam)))
    rd = ReachingDefs(f, db)
    n_ev = 0
    for n in f.all_nodes():
        if n["k"] != "call":
            continue
        c = n.get("c") or ""
        if not (c.endswith("SetNlCount") or c in ("Chunk::Delete", "Chunk::CopyAndAddBefore", "Chunk::CopyAndAddAfter")):
            continue
        n_ev += 1
        r.seen()
        gopts = set()
        for cn, pol in f.guard_conds(f.nblock[n["i"]]):
            if cn is not None:
                gopts |= options_read(f, cn) | provenance_options(f, rd, cn)      # through locals that cache an option
        aopts = set()
        for a in n.get("a", ()):
            aopts |= options_read(f, a) | provenance_options(f, rd, a)
        fams = set(fam.get(o) for o in gopts | aopts)
        inst = "%s@%s" % (c.split("::")[-1], "+".join(sorted(gopts | aopts)))
        ok = len(fams) == 1 and None not in fams
        r.check(ok, inst, db.loc(f, n), "%s is controlled by / takes options of more than one family: %s" % (expr_str(f, n["i"])[:50], sorted(gopts | aopts)))
        conds = _conds(f, n)
        r.check(("cpd.frag_cols == 0", True) in conds, inst + "/whole-file-only", db.loc(f, n), "start/end-of-file handling also runs for fragments")
        if c.endswith("SetNlCount") and ok:
            want = "nl_%s_of_file_min" % next(iter(fams))
            got = options_read(f, n["a"][0]) | provenance_options(f, rd, n["a"][0])
            plain = f.nodes.get(n["a"][0])
            while plain is not None and plain["k"] == "cast":
                plain = f.nodes.get(plain["a"][0])
            r.check(got == {want} and plain is not None and plain["k"] in ("call", "ref"), inst + "/value", db.loc(f, n),
                    "count set to `%s`, expected the value of %s" % (expr_str(f, n["a"][0]), want))
    # which end of the list each half works on
    heads = [n for n in f.all_nodes() if n["k"] == "asg" and expr_str(f, n["a"][1]) == "GetHead()"]
    tails = [n for n in f.all_nodes() if n["k"] == "asg" and expr_str(f, n["a"][1]) == "GetTail()"]
    r.check(len(heads) == 1 and len(tails) == 1 and f.dominates(heads[0]["i"], tails[0]["i"]) or (len(heads) == 1 and len(tails) == 1), "head-then-tail", db.loc(f, f.l0),
            "the function no longer processes GetHead() and GetTail() once each")
    if len(heads) == 1 and len(tails) == 1:
        hc = set(o for cn, pol in f.guard_conds(f.nblock[heads[0]["i"]]) if cn is not None for o in (options_read(f, cn) | provenance_options(f, rd, cn)))
        tc = set(o for cn, pol in f.guard_conds(f.nblock[tails[0]["i"]]) if cn is not None for o in (options_read(f, cn) | provenance_options(f, rd, cn)))
        r.check(hc and all(fam.get(o) == "start" for o in hc) and tc and all(fam.get(o) == "end" for o in tc), "family-per-end", db.loc(f, f.l0),
                "head handled under %s, tail under %s" % (sorted(hc), sorted(tc)))
    # every documented value has an effect: under (X = add, X_min = 1) and (X = force, X_min = 1) the site that creates a missing
    # newline and the site that raises the count are reachable; under (X = remove) the deleting site is (constant folding of the
    # guards, locals included).  IARF: ignore 0, add 1, remove 2, force 3.
    from ..fold import Folder
    from ..effects import option_defaults
    consts = option_defaults(db)[1]
    r.require(consts.get("IARF_ADD") == 1 and consts.get("IARF_FORCE") == 3 and consts.get("IARF_REMOVE") == 2, "IARF_* constants not extracted: %s" % {k: v for k, v in consts.items() if k.startswith("IARF")})
    for end in ("start", "end"):
        opt, optmin = "nl_%s_of_file" % end, "nl_%s_of_file_min" % end
        other, othermin = ("nl_end_of_file", "nl_end_of_file_min") if end == "start" else ("nl_start_of_file", "nl_start_of_file_min")
        for name, val, kinds in (("add", 1, ("Chunk::CopyAndAddBefore", "Chunk::CopyAndAddAfter", "SetNlCount")), ("force", 3, ("Chunk::CopyAndAddBefore", "Chunk::CopyAndAddAfter", "SetNlCount")),
                                 ("remove", 2, ("Chunk::Delete",))):
            env = {opt: {val}, optmin: {1}, other: {0}, othermin: {0}}
            fd = Folder(f, rd, env, consts)
            for kind in kinds:
                cand = []
                for n in f.all_nodes():
                    if n["k"] != "call" or not ((n.get("c") or "") == kind or (kind == "SetNlCount" and (n.get("c") or "").endswith("SetNlCount") and expr_str(f, n.get("o")) == "pc")):
                        continue
                    fam_here = set(fam.get(o) for cn, pol in f.guard_conds(f.nblock[n["i"]]) if cn is not None for o in (options_read(f, cn) | provenance_options(f, rd, cn)))
                    if end not in fam_here:
                        continue
                    dead = False
                    for cn, pol in f.guard_conds(f.nblock[n["i"]]):
                        if cn is None or not isinstance(pol, bool):
                            continue
                        t = fd.truth(cn, cn)
                        if t is not None and t != pol:
                            dead = True
                    cand.append(dead)
                if kind in ("Chunk::CopyAndAddBefore", "Chunk::CopyAndAddAfter") and not cand:
                    continue
                r.seen()
                r.check(bool(cand) and not all(cand), "%s=%s/%s-reachable" % (opt, name, kind.split("::")[-1]), db.loc(f, f.l0),
                        "with %s = %s and %s = 1 no %s site of newlines_eat_start_end() is reachable: the setting has no effect" % (opt, name, optmin, kind.split("::")[-1]))
    r.require(n_ev >= 6, "only %d list/count events in newlines_eat_start_end" % n_ev)
    r.floor(10)


def rule_eat_blanks(ctx):
    db = ctx.db
    r = ctx.rule("eat-blanks", "under eat_blanks_after_open_brace / eat_blanks_before_close_brace the newline next to the brace is set to one "
                 "line break when it has more, and can_increase_nl() vetoes increases next to such a brace")
    sites = {"eat_blanks_after_open_brace": None, "eat_blanks_before_close_brace": None}
    for f in db.funcs.values():
        if not f.file.startswith("src/newlines/"):
            continue
        for n in f.nodes.values():
            if n["k"] == "call" and (n.get("c") or "").endswith("SetNlCount") and expr_str(f, n["a"][0]) == "1" and "o" in n:
                recv = expr_str(f, n["o"])
                conds = _conds(f, n)
                for opt in sites:
                    if ("options::%s()" % opt, True) in conds and (("%s->GetNlCount() > 1" % recv, True) in conds or ("%s->GetNlCount() != 1" % recv, True) in conds) and ("%s->IsNewline()" % recv, True) in conds:
                        sites[opt] = (f, n, recv)
    for opt, s in sites.items():
        r.seen()
        if not r.check(s is not None, "%s/sets-one" % opt, None, "no SetNlCount(1) on a newline under %s() && count > 1" % opt):
            continue
        f, n, recv = s
        rd = ReachingDefs(f, db)
        recv_node = f.nodes[n["o"]]
        defs = []
        for info in rd.at(n["i"], var_id(recv_node)):
            rhs = rd.rhs_of(info)
            defs.append(expr_str(f, rhs) if rhs is not None else info[0])
        want = ("br_open->GetNext", "br_open->GetNextNc") if "after_open" in opt else ("pc->GetPrev(",)
        r.check(bool(defs) and all(d.startswith(want) for d in defs), "%s/adjacent-to-brace" % opt, db.loc(f, n), "the chunk `%s` is defined by %s" % (recv, defs))
    ci = db.fn("can_increase_nl")
    r.names(ci, "nl", "prev", "next")
    for opt in sites:
        rets = [n for n in ci.all_nodes() if n["k"] == "ret" and expr_str(ci, n["i"]) == "return false" and ("options::%s()" % opt, True) in _conds(ci, n)]
        r.check(len(rets) >= 1, "can_increase_nl/vetoes-under-%s" % opt, db.loc(ci, ci.l0), "can_increase_nl no longer returns false under %s" % opt)
    # priority of the veto: with the brace next to the newline and the eat option on, no `return true` of can_increase_nl is
    # reachable except the documented nl_inside_* rules (blank lines *inside* an otherwise empty namespace / function body)
    import re
    from collections import deque
    for opt, brace_fact in (("eat_blanks_before_close_brace", "next->Is(CT_BRACE_CLOSE)"), ("eat_blanks_after_open_brace", "prev->Is(CT_BRACE_OPEN)")):
        forced = {brace_fact: True, "options::%s()" % opt: True}
        mrecv = re.match(r"^(\w+)->Is\((CT_\w+)\)$", brace_fact)
        seen = set()
        dq = deque([ci.entry])
        hits = []
        while dq:
            b = dq.popleft()
            if b in seen:
                continue
            seen.add(b)
            for n in ci.blocks[b]["n"]:
                if n["k"] == "ret" and expr_str(ci, n["i"]) == "return true":
                    hits.append(n)
            ss = list(enumerate(ci.succ[b]))
            t = ci.blocks[b].get("term")
            c = t.get("lc", t.get("c")) if t else None
            if c is not None and len(ci.succ[b]) == 2:
                cs = expr_str(ci, c)
                val = forced.get(cs)
                m2 = re.match(r"^(\w+)->Is\((CT_\w+)\)$", cs)
                if val is None and m2 and mrecv and m2.group(1) == mrecv.group(1) and m2.group(2) != mrecv.group(2):
                    val = False       # one chunk has one type
                if val is True:
                    ss = [ss[0]]
                elif val is False:
                    ss = [ss[1]]
            for i, s2 in ss:
                if s2 >= 0:
                    dq.append(s2)
        r.seen(len(seen))
        for n in hits:
            cs = _conds(ci, n)
            inside = [c for c, pol in cs if pol is True and re.match(r"^options::nl_inside_\w+\(\) > 0", c)]
            r.check(bool(inside), "can_increase_nl/%s-has-priority/%s" % (opt, ",".join(sorted(set(re.findall(r"options::(\w+)\(\)", " ".join(c for c, pol in cs if pol is True)))))[:60]),
                    db.loc(ci, n), "with `%s` and %s set, can_increase_nl() can still return true here (under %s): the blank lines next to the brace "
                    "are put back after they were eaten" % (brace_fact, opt, [c for c, pol in cs if pol is True][-3:]))
    # the veto is worth something only if it is asked: do_blank_lines() asks it for the newline it is looking at (and forces
    # that one to 1); every count it sets on *another* newline must be controlled by can_increase_nl(<that newline>) too
    dbl = db.fn("do_blank_lines")
    r.names(dbl, "pc", "prev", "next")
    veto = [n for n in dbl.all_nodes() if n["k"] == "call" and n.get("c") == "can_increase_nl" and n.get("a")]
    r.require(any(expr_str(dbl, n["a"][0]) == "pc" for n in veto), "do_blank_lines no longer asks can_increase_nl(pc)")
    n_other = 0
    for n in dbl.all_nodes():
        if n["k"] != "call" or n.get("c") not in ("blank_line_set",) or not n.get("a"):
            continue
        x = expr_str(dbl, n["a"][0])
        if x == "pc":
            continue
        n_other += 1
        r.seen()
        cs = _conds(dbl, n)
        r.check(("can_increase_nl(%s)" % x, True) in cs, "do_blank_lines/blank_line_set(%s, %s)/asks-can_increase_nl" % (x, expr_str(dbl, n["a"][1]).split("::")[-1]),
                db.loc(dbl, n), "the count of `%s` (not the newline do_blank_lines() is looking at) is raised without can_increase_nl(%s): next to a "
                "brace that eats blank lines they are put back" % (x, x))
    r.require(n_other >= 3, "only %d blank_line_set() calls on another newline than pc" % n_other)
    r.floor(8)


def rule_runs_not_chunks(ctx):
    """nl_max bounds a *run* of line breaks in the output; the cap of do_blank_lines() is applied per newline chunk, so two
    newline chunks must never be printed back to back.  newlines_cleanup_dup() merges neighbours, but virtual braces
    (zero-length, never printed) can sit between two newline chunks - after a real `}` was made virtual by
    mod_full_brace_*=remove - and then the two runs add up."""
    db = ctx.db
    from ..flow import ReachingDefs, var_id, provenance_options
    r = ctx.rule("runs-not-chunks", "newlines_cleanup_dup() compares a newline chunk with the next *printed* chunk: the chunk tested by the "
                 "second Is(CT_NEWLINE) is reached by a navigation that skips virtual braces (GetNext*Nvb / a loop over IsVBrace())")
    f = db.fn("newlines_cleanup_dup")
    r.names(f, "pc", "next")
    tests = []
    for b, blk in f.blocks.items():
        t = blk.get("term")
        c = t.get("lc", t.get("c")) if t else None
        if c is not None:
            m = re.match(r"^(\w+)->Is\(CT_NEWLINE\)$", expr_str(f, c))
            if m:
                tests.append((b, m.group(1), c))
    r.require(len(tests) >= 2, "newlines_cleanup_dup: the pair of Is(CT_NEWLINE) tests was not found")
    # the second operand: the one tested under the fact that the first is a newline
    second = [(b, v, c) for b, v, c in tests if any(pol is True and cs.endswith("->Is(CT_NEWLINE)") for cs, pol in _conds(f, f.nodes[c]))]
    r.require(second, "newlines_cleanup_dup: no Is(CT_NEWLINE) test under the fact that the other chunk is a newline")
    rd = ReachingDefs(f, db)
    for b, v, c in second:
        ref = None
        for x in f.nodes.values():
            if x["k"] == "ref" and x.get("n") == v and f.nblock.get(x["i"]) == b:
                ref = x
        skips = False
        if ref is not None:
            for info in rd.at(c, var_id(ref)):
                rhs = rd.rhs_of(info)
                if rhs is not None and ("Nvb" in expr_str(f, rhs)):
                    skips = True
        loops_vb = any("IsVBrace()" in expr_str(f, (blk.get("term") or {}).get("c")) for blk in f.blocks.values() if (blk.get("term") or {}).get("c") is not None)
        r.check(skips or loops_vb, "newlines_cleanup_dup/skips-virtual-braces", db.loc(f, f.nodes[c]),
                "the neighbour `%s` is the next chunk, not the next printed chunk: NEWLINE VBRACE_CLOSE NEWLINE is printed as one run of line "
                "breaks whose length is the sum of two separately capped counts (nl_max exceeded)" % v)
    # every adjacent pair is merged: the merge is controlled by the two type tests only
    for n in [x for x in f.all_nodes() if x["k"] == "call" and x.get("c") == "Chunk::Delete"]:
        extra = [c for c in _conds(f, n) if c[1] is True and not c[0].endswith("->Is(CT_NEWLINE)") and "IsNotNullChunk" not in c[0]]
        r.check(not extra, "newlines_cleanup_dup/merges-every-pair", db.loc(f, n),
                "two neighbouring newline chunks are merged only under %s: pairs that are left alone are capped separately and add up" % extra)
    # the functions that add a newline look for an existing one past virtual braces (else a second chunk is inserted in
    # front of the brace, which newlines_cleanup_dup cannot merge)
    for qn, nav in (("newline_add_after", "GetNextNvb"), ("newline_add_before", "GetPrevNvb")):
        g = db.fn(qn, file="src/newlines/add.cpp")
        rdg = ReachingDefs(g, db)
        found = False
        for b, blk in g.blocks.items():
            t = blk.get("term")
            c = t.get("lc", t.get("c")) if t else None
            m = re.match(r"^(\w+)->IsNewline\(\)$", expr_str(g, c)) if c is not None else None
            if not m:
                continue
            ref = [x for x in g.nodes.values() if x["k"] == "ref" and x.get("n") == m.group(1) and g.nblock.get(x["i"]) == b]
            if not ref:
                continue
            found = True
            defs = [expr_str(g, rdg.rhs_of(i)) for i in rdg.at(c, var_id(ref[0])) if rdg.rhs_of(i) is not None]
            r.check(bool(defs) and all(nav in d for d in defs), "%s/looks-past-virtual-braces" % qn, db.loc(g, blk["term"]["l"]),
                    "%s() tests `%s` = %s for an existing newline; without %s() a newline behind a virtual brace is not seen and a second one "
                    "is inserted" % (qn, m.group(1), defs, nav))
        r.require(found, "%s: the test for an existing newline was not found" % qn)
    r.floor(1)


LEVEL_KIND = {"GetLevel": "level", "GetBraceLevel": "brace level", "GetPpLevel": "preprocessor level"}


def _level_kind(f, rd, i, at, depth=0):
    n = f.nodes.get(i)
    while n is not None and n["k"] == "cast":
        n = f.nodes.get(n["a"][0])
    if n is None:
        return set()
    if n["k"] == "call":
        b = (n.get("c") or "").split("::")[-1]
        return {(LEVEL_KIND[b], expr_str(f, n["o"]) if "o" in n else "?")} if b in LEVEL_KIND and not n.get("a") else set()
    if n["k"] == "bin" and n["op"] in ("+", "-"):
        return _level_kind(f, rd, n["a"][0], at, depth) | _level_kind(f, rd, n["a"][1], at, depth)
    if n["k"] == "ref" and n.get("d") in ("lv", "pv") and depth < 3:
        out = set()
        for info in rd.at(at, var_id(n)):
            rhs = rd.rhs_of(info)
            if rhs is not None:
                out |= set((k, "var " + n["n"]) for k, _ in _level_kind(f, rd, rhs, info[1]["i"], depth + 1))
        return out
    return set()


def rule_scan_level_agreement(ctx):
    """the newline passes find the end of the region they work on (a function body, a block, an enum) by comparing levels: a
    scan that takes its level from one accessor and matches with another runs past its closing brace for every body that sits
    inside parentheses, and the counts it sets (nl_max_blank_in_func, ...) then reach the rest of the file, its end included"""
    db = ctx.db
    r = ctx.rule("scan-level-agreement", "in src/newlines/ every comparison between two level values uses the same accessor on both sides "
                 "(GetLevel / GetBraceLevel / GetPpLevel, followed through locals); the one mixed form is `x->GetLevel() <op> x->GetBraceLevel()` "
                 "on the same chunk (the `inside parentheses` test)")
    n_cmp = 0
    for f in sorted(db.funcs.values(), key=lambda g: (g.file, g.l0)):
        if not f.file.startswith("src/newlines/"):
            continue
        rd = None
        for n in f.all_nodes():
            if n["k"] != "bin" or n["op"] not in ("==", "!=", "<", ">", "<=", ">="):
                continue
            if "evel" not in expr_str(f, n["i"]):
                continue
            if rd is None:
                rd = ReachingDefs(f, db)
            a = _level_kind(f, rd, n["a"][0], n["i"])
            b = _level_kind(f, rd, n["a"][1], n["i"])
            if not a or not b:
                continue
            n_cmp += 1
            r.seen()
            ka, kb = set(k for k, _ in a), set(k for k, _ in b)
            same_chunk = len(a) == 1 and len(b) == 1 and next(iter(a))[1] == next(iter(b))[1] and not next(iter(a))[1].startswith("var ")
            r.check(ka == kb or same_chunk, "%s/%s" % (f.qn.split("::")[-1], expr_str(f, n["i"])[:60]), db.loc(f, n),
                    "`%s` compares a %s with a %s: for a chunk inside parentheses the two differ, the scan does not stop at the brace it started from"
                    % (expr_str(f, n["i"]), "/".join(sorted(ka)), "/".join(sorted(kb))))
    r.require(n_cmp >= 30, "only %d level comparisons found in src/newlines/" % n_cmp)
    r.floor(30)


RULES = [rule_cap_on_every_newline, rule_cap_after_inserts, rule_guard_coverage, rule_eof_families, rule_eat_blanks, rule_runs_not_chunks, rule_scan_level_agreement]
