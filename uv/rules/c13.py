"""C13 In-place rewriting is all-or-nothing.

Decided: the ordering and error discipline of do_source_file()'s write sequence, which is what makes every
crash/fault point safe: only the temp name is ever opened for writing, backup precedes it, close precedes rename,
the rename is conditional on a clean close, and nobody else renames/unlinks.
Not decided: kernel-level atomicity of rename(2).
"""
import re

from ..facts import expr_str, walk, callee_names, enum_consts, root_decl
from ..flow import ReachingDefs, var_id
from .common_io import *


def _strcmp_same(f, cn):
    """condition node is `strcmp(filename_in, filename_out) == 0`"""
    c = f.nodes.get(cn)
    if not c or c["k"] != "bin" or c["op"] != "==":
        return False
    s = expr_str(f, cn)
    return s in ("strcmp(filename_in, filename_out) == 0", "strcmp(filename_out, filename_in) == 0")


def rule_tmp_only(ctx):
    db = ctx.db
    r = ctx.rule("tmp-only", "in do_source_file the only write-mode open takes filename_tmp, which on the in==out edge has a "
                 "non-empty literal suffix appended on every path")
    f = db.fn("do_source_file", file=UNC)
    r.names(f, "pfout", "filename_in", "filename_out", "filename_tmp", "need_backup", "did_open")
    opens = [n for n in f.all_nodes() if is_write_open(f, n)]
    r.require(opens, "do_source_file has no write-mode fopen")
    appends = [n for n in f.all_nodes() if n["k"] == "call" and n.get("op") == "+=" and expr_str(f, n.get("o")) == "filename_tmp"]
    good_app = []
    for a in appends:
        lit = f.nodes.get(a["a"][0])
        conds = f.guard_conds(f.nblock[a["i"]])
        if lit and lit["k"] == "str" and len(lit["v"]) > 0 and any(pol is True and _strcmp_same(f, cn) for cn, pol in conds if cn is not None):
            good_app.append(a)
    r.check(bool(good_app), "do_source_file/suffix-appended-when-in==out", db.loc(f, f.l0),
            "no `filename_tmp += \"<suffix>\"` under strcmp(filename_in, filename_out) == 0")
    # the strcmp test block(s)
    tests = [(b, blk) for b, blk in f.blocks.items() if blk.get("term") and _strcmp_same(f, blk["term"].get("lc", blk["term"].get("c")))]
    r.check(len(tests) >= 1, "do_source_file/in==out-test", db.loc(f, f.l0), "no strcmp(filename_in, filename_out) == 0 test")
    for o in opens:
        r.seen()
        path = expr_str(f, o["a"][0])
        r.check(path == "filename_tmp.c_str()", "do_source_file/write-open-target", db.loc(f, o),
                "write-mode fopen of `%s` (only the temp name may be opened for writing)" % path)
        # every path from the true edge of the in==out test to this open passes the append, with no later
        # assignment of filename_tmp
        for b, blk in tests:
            tb = f.succ[b][0]
            w = f.paths_avoiding(tb, lambda n: n["i"] == o["i"], lambda n: n in good_app, start_is_node=False)
            r.check(w is None, "do_source_file/suffix-on-every-path", db.loc(f, o),
                    "a path from the in==out edge reaches the write-mode open without appending the temp suffix",
                    path=["%s:%d" % (f.file, l) for l in f.path_lines(w[0])] if w else None)
        for a in good_app:
            w = f.paths_avoiding(a["i"], lambda n: n["i"] == o["i"],
                                 lambda n: n["k"] == "call" and n.get("op") == "=" and expr_str(f, n.get("o")) == "filename_tmp")
            r.check(w is not None, "do_source_file/suffix-survives", db.loc(f, o), "filename_tmp is reassigned between the suffix append and the open")
    # backup files are opened under a suffixed name
    for qn in ("backup_copy_file", "backup_create_md5_file"):
        g = db.fn(qn, file="src/backup.cpp")
        rd = ReachingDefs(g, db)
        for o in [n for n in g.all_nodes() if is_write_open(g, n)]:
            r.seen()
            p = g.nodes.get(o["a"][0])
            okp = False
            if p and p["k"] == "ref" and p.get("d") == "lv":
                # last snprintf into this buffer before the open, on every path: find snprintf calls with arg0 = buffer
                sn = [n for n in g.all_nodes() if is_call(n, "snprintf") and expr_str(g, n["a"][0]) == p["n"] and g.dominates(n["i"], o["i"])]
                if sn:
                    last = max(sn, key=lambda n: (g.dominates(sn[0]["i"], n["i"]), n["l"]))
                    # no other snprintf into the buffer between last and open
                    w = g.paths_avoiding(last["i"], lambda n: n["i"] == o["i"],
                                         lambda n: is_call(n, "snprintf") and expr_str(g, n["a"][0]) == p["n"])
                    fmt = g.nodes.get(last["a"][2])
                    suffix = g.nodes.get(last["a"][4]) if len(last["a"]) > 4 else None
                    okp = (w is not None and fmt and fmt["k"] == "str" and fmt["v"] == "%s%s" and suffix is not None
                           and suffix["k"] == "str" and len(suffix["v"]) > 0 and expr_str(g, last["a"][3]) == "filename")
            r.check(okp, "%s/write-open-suffixed" % qn, db.loc(g, o), "write-mode open in %s is not of `filename + <non-empty literal suffix>`" % qn)
    r.floor(5)


def rule_inplace_name(ctx):
    """do_source_file recognises the in-place case only by strcmp(filename_in, filename_out) == 0.  For --replace /
    --no-backup the output name is built by make_output_filename(…, name, prefix=nullptr, suffix=nullptr); if that does
    not reproduce `name` byte for byte, the source is opened for writing directly (no temp file, no backup)."""
    db = ctx.db
    r = ctx.rule("inplace-name", "the output name handed to do_source_file for the same input name is make_output_filename(buf, size, "
                 "name, prefix, suffix) whose result is prefix/ + name + suffix with `name` unmodified: the parameter is never stored "
                 "to, it is the first %s of the last snprintf, and the write offset is non-zero only under prefix != nullptr")
    g = db.fn("make_output_filename", file=UNC)
    pname = "filename"
    stores = [n for n in g.all_nodes() if (n["k"] == "asg" or (n["k"] == "un" and n.get("op") in ("++", "--"))) and expr_str(g, n["a"][0]) in (pname, "*" + pname)]
    r.check(not stores, "make_output_filename/name-not-modified", db.loc(g, stores[0] if stores else g.l0),
            "make_output_filename changes its `filename` parameter (%s): for --replace the output name then differs textually from the "
            "input name and do_source_file writes over the source without temp file or backup" % [expr_str(g, n["i"]) for n in stores])
    sn = [n for n in g.all_nodes() if n["k"] == "call" and n.get("c") == "snprintf"]
    r.require(sn, "make_output_filename no longer uses snprintf")
    rets = [n for n in g.all_nodes() if n["k"] == "ret"]
    last = [n for n in sn if rets and all(g.dominates(n["i"], x["i"]) for x in rets) and not any(m is not n and g.dominates(n["i"], m["i"]) for m in sn)]
    r.require(len(last) == 1, "make_output_filename: no single final snprintf")
    last = last[0]
    fmt = g.nodes.get(last["a"][2]) if len(last.get("a", ())) > 3 else None
    arg = g.nodes.get(last["a"][3]) if len(last.get("a", ())) > 3 else None
    r.check(fmt is not None and fmt["k"] == "str" and fmt["v"].startswith("%s") and arg is not None and arg["k"] == "ref" and arg.get("d") == "pv"
            and arg["n"] == pname, "make_output_filename/name-verbatim", db.loc(g, last),
            "the final snprintf does not copy the `filename` parameter itself through a leading %%s: `%s`" % expr_str(g, last["i"])[:100])
    # the offset variable of the final snprintf is assigned only 0 or under prefix != nullptr
    dest = expr_str(g, last["a"][0])
    m = re.match(r"&buf\[(\w+)\]$", dest)
    r.check(bool(m) or dest == "buf", "make_output_filename/offset-shape", db.loc(g, last), "unexpected destination `%s`" % dest)
    if m:
        off = m.group(1)
        for n in g.all_nodes():
            if n["k"] == "asg" and expr_str(g, n["a"][0]) == off:
                cs = [(expr_str(g, cn), pol) for cn, pol in g.guard_conds(g.nblock[n["i"]]) if cn is not None]
                r.check(("prefix != nullptr", True) in cs, "make_output_filename/offset-only-with-prefix", db.loc(g, n),
                        "`%s` is set outside `prefix != nullptr`" % expr_str(g, n["i"]))
            if n["k"] == "decl" and n.get("n") == off:
                init = g.nodes.get(n["a"][0]) if n.get("a") else None
                r.check(init is not None and init["k"] == "int" and init["v"] == 0, "make_output_filename/offset-starts-at-0", db.loc(g, n), "`%s` does not start at 0" % off)
    # nothing rewrites the buffer after the final snprintf
    late = [n for n in g.all_nodes() if n["k"] in ("asg",) or (n["k"] == "un" and n.get("op") in ("++", "--")) or
            (n["k"] == "call" and n.get("c") in ("memmove", "memcpy", "strcpy", "strcat", "snprintf", "sprintf") and n["i"] != last["i"])]
    late = [n for n in late if g.dominates(last["i"], n["i"])]
    r.check(not late, "make_output_filename/nothing-after-final-snprintf", db.loc(g, late[0] if late else last),
            "make_output_filename edits the name after it was formatted (%s): an input name that the edit changes is no longer recognised as "
            "in-place by do_source_file's strcmp" % [expr_str(g, n["i"])[:40] for n in late[:3]])
    # callers: the name formatted is the name opened
    n_calls = 0
    for f2, c in db.callers_of("do_source_file"):
        a = c.get("a", ())
        if len(a) < 2:
            continue
        out = f2.nodes.get(a[1])
        if out is not None and out["k"] == "call" and out.get("c") == "make_output_filename":
            n_calls += 1
            r.seen()
            r.check(expr_str(f2, out["a"][2]) == expr_str(f2, a[0]), "%s/same-name" % f2.qn, db.loc(f2, c),
                    "do_source_file(%s, make_output_filename(…, %s, …)): different names" % (expr_str(f2, a[0]), expr_str(f2, out["a"][2])))
    r.require(n_calls >= 2, "only %d do_source_file(…, make_output_filename(…)) call sites" % n_calls)
    r.floor(5)


def rule_output_or_exit(ctx):
    """do_source_file installs the temp file (or the buffered --if-changed output) whenever uncrustify_file() returns; so a
    formatting failure must leave uncrustify_file() through exit(), never through a return: every returning path of
    uncrustify_file passes output_text()."""
    db = ctx.db
    r = ctx.rule("output-or-exit", "every path from the entry of uncrustify_file() to its return passes a call of output_text() (failures leave "
                 "through exit(), which do_source_file's rename block is never reached after)")
    u = db.fn("uncrustify_file", file=UNC)
    outs = db.calls_in(u, "output_text")
    r.require(outs, "uncrustify_file does not call output_text")
    start = u.blocks[u.entry]["n"][0]["i"] if u.blocks[u.entry]["n"] else next(iter(u.all_nodes()))["i"]
    w = u.exit_reachable_avoiding(start, lambda n: n["k"] == "call" and n.get("c") == "output_text")
    r.seen(len(u.blocks))
    r.check(not w, "uncrustify_file/returns-only-after-output", db.loc(u, u.l0),
            "uncrustify_file() can return without having called output_text(): do_source_file then installs an empty or partial output over "
            "the source and exits 0", path=["%s:%d" % (u.file, l) for l in u.path_lines(w)][-8:] if w and not isinstance(w, bool) else None)
    # the caller: nothing between the uncrustify_file() call and the rename decision looks at a failure indication, so the
    # above is the only protection; and the call is made with the stream that is renamed later
    f = db.fn("do_source_file", file=UNC)
    r.names(f, "pfout", "filename_in", "filename_out", "filename_tmp", "need_backup", "did_open")
    calls = db.calls_in(f, "uncrustify_file")
    r.require(calls, "do_source_file does not call uncrustify_file")
    for c in calls:
        r.check(expr_str(f, c["a"][1]) in ("pfout", "nullptr"), "do_source_file/formats-into-pfout", db.loc(f, c), "uncrustify_file is handed `%s`, neither the stream that is installed nor nullptr (buffer-only run)" % expr_str(f, c["a"][1]))
    r.floor(2)


def rule_order(ctx):
    db = ctx.db
    r = ctx.rule("order", "backup (unless no_backup) precedes the temp open; backup failure exits non-zero; close precedes rename "
                 "with no write in between")
    f = db.fn("do_source_file", file=UNC)
    r.names(f, "pfout", "filename_in", "filename_out", "filename_tmp", "need_backup", "did_open")
    opens = [n for n in f.all_nodes() if is_write_open(f, n)]
    backups = db.calls_in(f, "backup_copy_file")
    renames = [n for n in f.all_nodes() if n["k"] == "call" and n.get("c") in ("rename", "MoveFileEx", "MoveFileExA")]
    r.require(opens and backups and renames, "do_source_file lacks fopen/backup_copy_file/rename")
    tests = [(b, blk) for b, blk in f.blocks.items() if blk.get("term") and _strcmp_same(f, blk["term"].get("lc", blk["term"].get("c")))]
    r.require(tests, "no in==out test")

    def edge_ok(b, i):
        # forbid the edge on which `no_backup` is true (condition `!no_backup` false)
        t = f.blocks[b].get("term")
        if not t:
            return True
        c = t.get("lc", t.get("c"))
        s = expr_str(f, c) if c is not None else ""
        if s == "!no_backup":
            return i == 0
        if s == "no_backup":
            return i == 1
        return True
    for o in opens:
        for b, blk in tests:
            r.seen()
            w = f.paths_avoiding(f.succ[b][0], lambda n: n["i"] == o["i"], lambda n: is_call(n, "backup_copy_file"),
                                 start_is_node=False, edge_ok=edge_ok)
            r.check(w is None, "do_source_file/backup-before-open", db.loc(f, o),
                    "with backups enabled the temp file can be opened without backup_copy_file() having run",
                    path=["%s:%d" % (f.file, l) for l in f.path_lines(w[0])] if w else None)
    for bk in backups:
        r.seen()
        r.check(expr_str(f, bk["a"][0]) == "filename_in" and expr_str(f, bk["a"][1]) == "fm.raw", "do_source_file/backup-args", db.loc(f, bk),
                "backup_copy_file must receive the input path and the raw bytes that were read, got (%s)" % expr_str(f, bk["i"]))
        # result compared with EX_OK, failing edge exits non-zero before any file operation
        par = [f.nodes[p] for p in f.parents().get(bk["i"], ())]
        cmpn = [p for p in par if p["k"] == "bin" and p["op"] in ("!=", "==") and any(f.nodes[p["a"][k0]]["k"] == "int" and f.nodes[p["a"][k0]]["v"] == 0 for k0 in (0, 1))]
        ok = False
        wit = None
        if cmpn:
            c = cmpn[0]
            b = None
            for bb, blk in f.blocks.items():
                t = blk.get("term")
                if t and t.get("lc", t.get("c")) == c["i"]:
                    b = bb
            if b is not None:
                fail_edge = 0 if c["op"] == "!=" else 1
                ok, wit = region_always_exits(f, f.succ[b][fail_edge],
                                              lambda n: is_write_open(f, n) or (n["k"] == "call" and n.get("c") in FILE_MUTATORS) or is_call(n, "uncrustify_file"))
        r.check(ok, "do_source_file/backup-failure-exits", db.loc(f, bk), "a failing backup_copy_file() does not lead to exit(non-zero) before the output is written")
    closes = [n for n in db.calls_in(f, "fclose") if expr_str(f, n["a"][0]) == "pfout"]
    r.require(closes, "no fclose(pfout)")
    writers = ("uncrustify_file", "fputc", "fwrite", "fprintf", "fputs", "putc")
    for rn in renames:
        r.seen()
        dom = [c for c in closes if f.dominates(c["i"], rn["i"])]
        r.check(bool(dom), "do_source_file/close-before-rename", db.loc(f, rn), "rename is reachable without fclose(pfout)")
        r.check(expr_str(f, rn["a"][0]) == "filename_tmp.c_str()" and expr_str(f, rn["a"][1]) == "filename_out", "do_source_file/rename-args", db.loc(f, rn),
                "rename must move the temp file onto filename_out, got %s" % expr_str(f, rn["i"]))
        for c in dom:
            w = f.paths_avoiding(c["i"], lambda n: n["k"] == "call" and n.get("c") in writers and n["i"] != rn["i"], lambda n: n["i"] == rn["i"])
            r.check(w is None, "do_source_file/no-write-after-close", db.loc(f, rn), "output is written between fclose(pfout) and rename")
    # nonzero exit of rename failure
    for rn in renames:
        par = [f.nodes[p] for p in f.parents().get(rn["i"], ())]
        cmpn = [p for p in par if p["k"] == "bin" and p["op"] == "!=" and any(f.nodes[p["a"][k0]]["k"] == "int" and f.nodes[p["a"][k0]]["v"] == 0 for k0 in (0, 1))]
        ok = False
        if cmpn:
            for bb, blk in f.blocks.items():
                t = blk.get("term")
                if t and t.get("lc", t.get("c")) == cmpn[0]["i"]:
                    ok, _ = region_always_exits(f, f.succ[bb][0], lambda n: False)
        r.check(ok, "do_source_file/rename-failure-exits", db.loc(f, rn), "a failing rename does not lead to exit(non-zero)")
    r.floor(6)


def rule_rename_owner(ctx):
    db = ctx.db
    r = ctx.rule("rename-owner", "rename/unlink/remove/MoveFileEx are called only from do_source_file; write-mode opens exist only in "
                 "the known owner functions")
    n_sites = 0
    for name in ("rename", "unlink", "remove", "renameat", "MoveFileEx", "MoveFileExA", "std::rename", "std::remove", "truncate", "ftruncate"):
        for f, n in db.callers_of(name):
            n_sites += 1
            r.seen()
            r.check(f.qn == "do_source_file" and f.file == UNC, "%s<-%s" % (name, f.qn), db.loc(f, n), "%s() called from %s" % (name, f.qn))
    r.require(n_sites >= 2, "expected at least the rename and unlink sites in do_source_file, found %d" % n_sites)
    owners = {"do_source_file", "backup_copy_file", "backup_create_md5_file", "main", "uncrustify_file", "dump_out", "dump_step",
              "set_dump_file_name", "version_exit", "redir_stdout"}
    for f in db.funcs.values():
        for n in f.nodes.values():
            if n["k"] == "call" and n.get("c") in ("fopen", "freopen", "fopen64", "open", "creat", "std::basic_ofstream<char>::open") :
                if n.get("c") in ("fopen", "freopen", "fopen64") and not is_write_open(f, n):
                    continue
                if n.get("c") == "open":
                    s = expr_str(f, n["i"])
                    if "O_WRONLY" not in s and "O_RDWR" not in s and "O_CREAT" not in s:
                        continue
                r.seen()
                r.check(f.qn in owners, "write-open-in/%s" % f.qn, db.loc(f, n), "new write-mode open in %s: %s" % (f.qn, expr_str(f, n["i"])))
    for f in db.funcs.values():
        for n in f.nodes.values():
            if n["k"] in ("ctor", "decl") and "ofstream" in str(n.get("t", "")) + str([v.get("t") for v in n.get("vars", ())] if n["k"] == "decl" else ""):
                r.fail("ofstream-in/%s" % f.qn, db.loc(f, n), "std::ofstream used in %s (file writer outside the reviewed owners)" % f.qn)


def rule_write_error_checked(ctx):
    db = ctx.db
    r = ctx.rule("write-error-checked", "rename is controlled by a clean fclose(pfout)/ferror(pfout); the failing edge exits non-zero "
                 "without renaming")
    f = db.fn("do_source_file", file=UNC)
    r.names(f, "pfout", "filename_in", "filename_out", "filename_tmp", "need_backup", "did_open")
    rd = ReachingDefs(f, db)
    renames = [n for n in f.all_nodes() if n["k"] == "call" and n.get("c") in ("rename", "MoveFileEx", "MoveFileExA")]
    r.require(renames, "no rename in do_source_file")

    def close_test(cn, pol):
        """is (cn,pol) the edge on which fclose(pfout) succeeded / no write error was seen?"""
        c = f.nodes.get(cn)
        if c is None:
            return False
        s = expr_str(f, cn)
        # direct idiom
        if c["k"] == "bin" and c["op"] in ("!=", "==") and "fclose" in callee_names(f, cn):
            z = f.nodes.get(c["a"][1])
            if z and z["k"] == "int" and z["v"] == 0:
                return pol is (c["op"] == "==")
        # flag idiom: `flag` false, where flag = true under fclose(pfout) != 0
        flagref = c if c["k"] == "ref" else (f.nodes.get(c["a"][0]) if c["k"] == "un" and c["op"] == "!" else None)
        if flagref is not None and flagref["k"] == "ref" and flagref.get("d") == "lv":
            want = False if c["k"] == "ref" else True
            if pol is not want:
                return False
            for info in rd.at(cn, var_id(flagref)):
                if info[0] == "asg":
                    rhs = f.nodes.get(info[1]["a"][1])
                    if rhs and rhs["k"] == "bool" and rhs["v"] == 1:
                        for (c2, p2) in f.guard_conds(f.nblock[info[1]["i"]]):
                            n2 = f.nodes.get(c2)
                            if n2 and n2["k"] == "bin" and n2["op"] == "!=" and "fclose" in callee_names(f, c2) and p2 is True:
                                z = f.nodes.get(n2["a"][1])
                                if z and z["k"] == "int" and z["v"] == 0:
                                    return True
        return False
    for rn in renames:
        r.seen()
        conds = [(cn, pol) for (cn, pol) in f.guard_conds(f.nblock[rn["i"]]) if cn is not None and isinstance(pol, bool)]
        hit = [(cn, pol) for (cn, pol) in conds if close_test(cn, pol)]
        r.check(bool(hit), "do_source_file/rename-after-clean-close", db.loc(f, rn),
                "rename() is not controlled by the result of fclose(pfout): a short write (ENOSPC, EFBIG) would install a truncated file")
        # The writers (fputc/fwrite inside output_text and the --if-changed copy loop) never look at their results, so
        # the sticky error indicator is the only record of a failed intermediate write(): the flag that controls the
        # rename must also be fed by ferror(pfout) (fflush()/fclose() report only the final flush).
        fed = False
        for (cn, pol) in hit:
            c = f.nodes.get(cn)
            flagref = c if c["k"] == "ref" else (f.nodes.get(c["a"][0]) if c["k"] == "un" and c["op"] == "!" else None)
            if flagref is None or flagref["k"] != "ref":
                continue
            for info in rd.at(cn, var_id(flagref)):
                rhs = rd.rhs_of(info)
                if rhs is not None and any(x["k"] == "call" and x.get("c") == "ferror" and x.get("a") and expr_str(f, x["a"][0]) == "pfout" for x in walk(f, rhs)):
                    fed = True
        if not fed:
            # direct idiom: a dominating `ferror(pfout)` test
            fed = any("ferror" in callee_names(f, cn) and "pfout" in expr_str(f, cn) for cn, pol in conds)
        r.check(fed, "do_source_file/rename-after-ferror", db.loc(f, rn),
                "rename() is not controlled by ferror(pfout): the writers ignore their results, so an intermediate write() that failed "
                "(ENOSPC, EIO) is remembered only by the stream's error indicator; fflush()/fclose() succeed afterwards and a file "
                "with a hole is installed")
    # nothing is written to the stream after the error indicator was read
    ferr = [n for n in f.all_nodes() if n["k"] == "call" and n.get("c") == "ferror" and n.get("a") and expr_str(f, n["a"][0]) == "pfout"]
    r.require(ferr, "do_source_file no longer calls ferror(pfout)")
    late = [n for n in f.all_nodes() if n["k"] == "call" and n.get("c") not in ("fclose", "fflush", "fileno", "ferror", "fsync")
            and any(expr_str(f, a) == "pfout" for a in n.get("a", ()))]
    for fe in ferr:
        for m in late:
            w = f.paths_avoiding(fe["i"], lambda n, m=m: n["i"] == m["i"], lambda n: n["k"] == "call" and n.get("c") == "ferror" and n["i"] != fe["i"])
            r.check(w is None, "do_source_file/no-write-after-ferror/%s" % (m.get("c") or "?"), db.loc(f, m),
                    "%s(… pfout …) can run after ferror(pfout) was consulted: its failure would go unnoticed" % m.get("c"))
    r.floor(2)


def rule_md5_block_invariant(ctx):
    """the md5 shortcut of backup_copy_file() decides whether a backup is written before the source is replaced"""
    from . import c14
    c14.rule_md5_block_invariant(ctx)


def rule_skip_guard(ctx):
    """... and nothing but a full match of the recorded digest may skip the backup (shared with C14)"""
    from . import c14
    c14.rule_skip_guard(ctx)


def rule_input_read_complete(ctx):
    """a prefix of the source accepted as the source is then written over it (shared with C10)"""
    from . import c10
    c10.rule_input_read_complete(ctx)


def rule_names_not_truncated(ctx):
    from . import c14
    c14.rule_names_not_truncated(ctx)


RULES = [rule_tmp_only, rule_inplace_name, rule_output_or_exit, rule_order, rule_rename_owner, rule_write_error_checked, rule_md5_block_invariant, rule_skip_guard, rule_names_not_truncated, rule_input_read_complete]
