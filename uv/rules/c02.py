"""C02 Token stream is preserved exactly under whitespace-only configurations.

Decided: the structural skeleton that makes loss, duplication, reordering and fusion impossible: the tokenizer adds every
parsed non-whitespace chunk to the list and discards input characters only in the whitespace consumers; output_text emits
each chunk's text exactly once per iteration of a loop that only moves forward; the spacing decision is protected by the
fusion guard; a chunk is never written left of the current column; newlines created inside preprocessor lines carry a
backslash; no chunk-editing site is live under the default configuration (shared effect census).
Not decided: the numeric parts (column arithmetic, punctuator table contents, the `Len() < 4` heuristic).
"""
import re

from ..facts import expr_str, walk, enum_consts, global_path, in_macro
from . import common_effects, common_space

OUT = "src/output.cpp"
TOK = "src/tokenizer/tokenize.cpp"


def _conds(f, n):
    return [(expr_str(f, cn), pol) for cn, pol in f.guard_conds(f.nblock[n["i"]]) if cn is not None]


def rule_lossless_tokenizer(ctx):
    db = ctx.db
    r = ctx.rule("lossless-tokenizer", "tokenize(): every successfully parsed chunk that is not CT_WHITESPACE reaches CopyAndAddBefore in the same iteration; "
                 "a failing parse_next with input left exits; parse_next's fall-through is the garbage exit; input characters are discarded "
                 "(get()/expect() result unused) only in the whitespace consumers")
    f = db.fn("tokenize", file=TOK)
    pn = [n for n in f.all_nodes() if n["k"] == "call" and n.get("c") == "parse_next"]
    adds = [n for n in f.all_nodes() if n["k"] == "call" and (n.get("c") or "").endswith("CopyAndAddBefore")]
    r.require(len(pn) == 1 and len(adds) == 1, "tokenize: parse_next x%d, CopyAndAddBefore x%d" % (len(pn), len(adds)))
    loops = [(h, body) for h, body, backs in f.loops() if f.nblock[pn[0]["i"]] in body and f.nblock[adds[0]["i"]] in body]
    r.require(loops, "tokenizer main loop not found")
    h, body = min(loops, key=lambda x: len(x[1]))
    pb = None
    for bb, blk in f.blocks.items():
        t = blk.get("term")
        if t and pn[0]["i"] in [x["i"] for x in walk(f, t.get("lc", t.get("c")))]:
            pb = bb
    r.require(pb is not None, "the test of parse_next()'s result was not found")
    neg = expr_str(f, f.blocks[pb]["term"].get("lc", f.blocks[pb]["term"].get("c"))).startswith("!")
    ok_edge, fail_edge = (1, 0) if neg else (0, 1)

    def edge_ok(b, i):
        t = f.blocks[b].get("term")
        if t:
            c = t.get("lc", t.get("c"))
            if c is not None and expr_str(f, c) == "chunk.GetType() == CT_WHITESPACE":
                return i == 1
        return True
    from collections import deque
    seen = set()
    dq = deque([(f.succ[pb][ok_edge], (f.succ[pb][ok_edge],))])
    wit = None
    addb = f.nblock[adds[0]["i"]]
    while dq:
        b, path = dq.popleft()
        if b in seen or b == addb:
            continue
        seen.add(b)
        if b == h or b not in body:
            wit = path
            break
        if f.blocks[b].get("nr"):
            continue
        for i, s in enumerate(f.succ[b]):
            if s >= 0 and edge_ok(b, i):
                dq.append((s, path + (s,)))
    r.seen(len(body))
    r.check(wit is None, "tokenize/every-chunk-added", db.loc(f, pn[0]), "a parsed non-whitespace chunk can be dropped: the loop continues without CopyAndAddBefore",
            path=["%s:%d" % (f.file, l) for l in f.path_lines(list(wit))][-8:] if wit else None)
    # failing parse_next: exit (garbage / internal error), never silently continue
    from .common_io import region_always_exits
    okx, w = region_always_exits(f, f.succ[pb][fail_edge], lambda n: False)
    r.check(okx, "tokenize/parse-failure-exits", db.loc(f, pn[0]), "when parse_next() fails tokenize() carries on instead of exiting with a diagnostic")
    p = db.fn("parse_next", file=TOK)
    # parse_next: the last statement region is the garbage exit; `return false` only for end of input
    for n in p.all_nodes():
        if n["k"] == "ret" and expr_str(p, n["i"]) == "return false":
            r.check(("!ctx.more()", True) in _conds(p, n), "parse_next/false-only-at-end-of-input", db.loc(p, n), "parse_next returns false with input left")
    ex = [n for n in p.all_nodes() if n["k"] == "call" and n.get("c") == "exit"]
    r.check(len(ex) >= 1 and p.exit_reachable_avoiding(p.entry, lambda n: n["k"] == "ret" or (n["k"] == "call" and n.get("c") == "exit"), start_is_node=False) is None,
            "parse_next/fall-through-is-exit", db.loc(p, p.l1), "parse_next can fall off its end without returning a chunk or exiting")
    # discarded characters
    allowed = {"parse_whitespace", "parse_newline", "parse_bs_newline", "TokenContext::expect"}
    n_get = 0
    for g in db.funcs.values():
        if g.file != TOK:
            continue
        par = g.parents()
        for n in g.all_nodes():
            if n["k"] == "call" and n.get("c") in ("TokenContext::get", "TokenContext::expect"):
                n_get += 1
                r.seen()
                used = bool(par.get(n["i"]))
                if used:
                    continue
                if g.qn in allowed:
                    continue
                cs = _conds(g, n)
                # the preprocessor-body scanner drops a blank (space or tab) that follows a backslash - all of them, or those that
                # run to the end of the line
                flat = [(c.replace(chr(92), ""), pol) for c, pol in cs]
                ok = g.qn == "parse_next" and ("last == ''", True) in flat and \
                    (("ch == ' '", True) in flat or ("ch == ' ' || ch == 't'", True) in flat or ("only_blanks_to_end_of_line(ctx)", True) in flat)
                r.check(ok, "%s/discarded-%s" % (g.qn, n["c"].split("::")[-1]), db.loc(g, n), "%s reads an input character and throws it away (under %s)" % (g.qn, cs[-3:]))
    r.require(n_get >= 60, "only %d get()/expect() sites in the tokenizer" % n_get)
    r.floor(5)


def rule_output_once(ctx):
    db = ctx.db
    r = ctx.rule("output-once-in-order", "output_text's chunk loop advances only by GetNext() or by the chunk an output_comment_* writer returns; every "
                 "iteration passes exactly one emitter of pc (add_text(pc->GetStr()..), a comment writer, the newline arm) or the empty-text arm")
    o = db.fn("output_text", file=OUT)
    r.names(o, "pc")
    emits = [n for n in o.all_nodes() if n["k"] == "call" and not in_macro(n, "LOG_FMT") and
             ((n.get("c") == "add_text" and n.get("a") and expr_str(o, n["a"][0]) == "pc->GetStr()") or (n.get("c") or "").startswith("output_comment_"))]
    r.require(len(emits) >= 6, "output_text: %d emit sites" % len(emits))
    loops = [(h, body) for h, body, backs in o.loops() if all(o.nblock[e["i"]] in body for e in emits)]
    r.require(loops, "output loop not found")
    h, body = min(loops, key=lambda x: len(x[1]))
    # cursor assignments inside the loop
    for b in body:
        for n in o.blocks[b]["n"]:
            if n["k"] == "asg" and expr_str(o, n["a"][0]) == "pc":
                r.seen()
                rhs = expr_str(o, n["a"][1])
                r.check(rhs == "pc->GetNext(ALL)" or rhs.startswith("output_comment_"), "output_text/cursor=%s" % rhs[:30], db.loc(o, n), "the output cursor is set to `%s`" % rhs)
    # no emit inside a nested loop
    for e in emits:
        inner = [1 for hh, bb, _ in o.loops() if hh != h and o.nblock[e["i"]] in bb and bb < body]
        r.check(not inner, "output_text/emit-not-in-inner-loop/%s" % expr_str(o, e["i"])[:30], db.loc(o, e), "an emitter sits in a nested loop: the chunk can be written more than once")
    # at most one emit per iteration: from each emit, no other emit reachable before the loop header
    ids = set(e["i"] for e in emits)
    for e in emits:
        w = o.paths_avoiding(e["i"], lambda n: n["i"] in ids and n["i"] != e["i"], lambda n: o.nblock[n["i"]] == h, edge_ok=lambda b, i: o.succ[b][i] != h)
        r.check(w is None, "output_text/single-emit/%s" % expr_str(o, e["i"])[:30], db.loc(o, e), "after `%s` another emitter can run in the same iteration" % expr_str(o, e["i"])[:40])
    # at least one: from loop body start to header avoiding emits, allowed only via newline arm / Len()==0 arm / tracking entity arms
    def harmless(b, i):
        t = o.blocks[b].get("term")
        if t:
            s = expr_str(o, t.get("lc", t.get("c")))
            if s in ("pc->Is(CT_NEWLINE)", "pc->Len() == 0", "pc->Is(CT_NL_CONT)") and i == 0:
                return False          # newline / continuation arms write their own terminator; empty chunks have no text
            if s in ("tracking_is_on",) and i == 0:
                return False
        return True
    start = o.succ[h][0]
    from collections import deque
    seen = set()
    dq = deque([(start, (start,))])
    wit = None
    emit_blocks = set(o.nblock[i] for i in ids)
    while dq:
        b, path = dq.popleft()
        if b in seen or b in emit_blocks:
            continue
        seen.add(b)
        if b == h:
            wit = path
            break
        for i, s in enumerate(o.succ[b]):
            if s >= 0 and harmless(b, i) and (s in body or s == h):
                dq.append((s, path + (s,)))
    r.check(wit is None, "output_text/every-chunk-emitted", db.loc(o, o.blocks[h]["term"]["l"] if o.blocks[h].get("term") else o.l0),
            "an iteration can complete without writing the chunk's text", path=["%s:%d" % (o.file, l) for l in o.path_lines(list(wit))][-8:] if wit else None)
    r.floor(10)


def rule_fusion_guard(ctx):
    r = ctx.rule("fusion-guard", "space_text resets PCF_FORCE_SPACE before deciding, sets it for word/word and for punctuator pairs that re-lex differently, "
                 "and do_space is only consulted through ensure_force_space, which ORs IARF_ADD under that flag")
    common_space.fusion_guard(ctx, r)
    common_space.single_path(ctx, r)
    r.floor(12)


def rule_no_overlap(ctx):
    db = ctx.db
    r = ctx.rule("no-overlap", "in output_text a chunk that is not first on its line is re-indented when its column lies left of the output column, and "
                 "every chunk is reached through output_to_column, which never decreases cpd.column")
    o = db.fn("output_text", file=OUT)
    r.names(o, "pc")
    re_ = [n for n in o.all_nodes() if n["k"] == "call" and n.get("c") == "reindent_line"]
    dg = o.direct_guard(o.nblock[re_[0]["i"]]) if re_ else None
    r.check(len(re_) == 1 and dg is not None and dg[1] is True and expr_str(o, dg[0]) == "pc->GetColumn() < cpd.column" and ("cpd.did_newline", False) in _conds(o, re_[0]) and
            expr_str(o, re_[0]["i"]) == "reindent_line(pc, cpd.column)", "output_text/push-right", db.loc(o, re_[0] if re_ else o.l0),
            "the `GetColumn() < cpd.column => reindent_line(pc, cpd.column)` guard of the mid-line branch changed")
    emit = [n for n in o.all_nodes() if n["k"] == "call" and n.get("c") == "add_text" and len(n.get("a", ())) == 3 and expr_str(o, n["a"][0]) == "pc->GetStr()"
            and o.nodes[n["a"][1]].get("v") == 0]
    otc = [n for n in o.all_nodes() if n["k"] == "call" and n.get("c") == "output_to_column" and expr_str(o, n["a"][0]) == "pc->GetColumn()"]
    main = [x for x in otc if emit and all(o.dominates(x["i"], e["i"]) for e in emit)]
    r.check(len(main) == 1, "output_text/column-before-text", db.loc(o, otc[0] if otc else o.l0),
            "the chunk text is written without output_to_column(pc->GetColumn(), ..) before it")
    for e in re_:
        for x in main:
            w = o.paths_avoiding(x["i"], lambda n: n["i"] == e["i"], lambda n: n["k"] == "asg" and expr_str(o, n["a"][0]) == "pc")
            r.check(w is None and o.paths_avoiding(e["i"], lambda n: n["i"] == x["i"], lambda n: False) is not None, "output_text/push-right-before-column", db.loc(o, e),
                    "reindent_line does not precede the column advance of the same chunk")
    t = db.fn("output_to_column", file=OUT)
    for n in t.all_nodes():
        if n["k"] in ("asg", "un") and n.get("a") and global_path(t, n["a"][0]) == "cpd.column":
            r.fail("output_to_column/writes-column", db.loc(t, n), "output_to_column modifies cpd.column directly")
    calls = set(n.get("c") for n in t.all_nodes() if n["k"] == "call")
    r.check(calls <= {"add_text", "next_tab_column"}, "output_to_column/only-adds-text", db.loc(t, t.l0), "output_to_column calls %s" % sorted(calls))
    r.floor(4)


def rule_nl_in_preproc(ctx):
    db = ctx.db
    r = ctx.rule("nl-in-preproc", "the newline makers (setup_newline_add, newline_end_newline) type the new chunk CT_NL_CONT with text backslash-newline "
                 "whenever the neighbour is inside a preprocessor line, and plain CT_NEWLINE otherwise; other creators of newline chunks are reviewed")
    for qn, file in (("setup_newline_add", "src/newlines/setup_newline_add.cpp"), ("newline_end_newline", "src/newlines/end_newline.cpp")):
        f = db.fn(qn, file=file)
        cont = [n for n in f.all_nodes() if n["k"] == "call" and (n.get("c") or "").endswith("SetType") and expr_str(f, n["a"][0]) == "CT_NL_CONT"]
        plain = [n for n in f.all_nodes() if n["k"] == "call" and (n.get("c") or "").endswith("SetType") and expr_str(f, n["a"][0]) == "CT_NEWLINE"]
        r.check(len(cont) == 1 and len(plain) == 1, "%s/two-kinds" % qn, db.loc(f, f.l0), "%s no longer creates both CT_NL_CONT and CT_NEWLINE" % qn)
        for n in cont:
            cs = _conds(f, n)
            dg = f.direct_guard(f.nblock[n["i"]])
            okc = dg is not None and dg[1] is True and re.match(r"nl(\.|->)TestFlags\(PCF_IN_PREPROC\)$", expr_str(f, dg[0])) is not None
            r.check(okc, "%s/continuation-under-preproc" % qn, db.loc(f, n), "CT_NL_CONT is chosen under %s" % cs)
            b = f.nblock[n["i"]]
            txt = [expr_str(f, x["a"][0]) for x in f.blocks[b]["n"] if x["k"] == "call" and x.get("op") == "=" and "Str()" in expr_str(f, x.get("o"))]
            r.check(txt == ['"\\\\\\n"'] or txt == ['"\\\\n"'] or (len(txt) == 1 and "\\\\" in txt[0]), "%s/continuation-text" % qn, db.loc(f, n), "continuation text is %s" % txt)
        for n in plain:
            cs = _conds(f, n)
            dg = f.direct_guard(f.nblock[n["i"]])
            r.check(dg is not None and dg[1] is False and re.match(r"nl(\.|->)TestFlags\(PCF_IN_PREPROC\)$", expr_str(f, dg[0])) is not None,
                    "%s/plain-outside-preproc" % qn, db.loc(f, n), "CT_NEWLINE is chosen under %s" % cs)
    # who else types a chunk CT_NEWLINE outside the tokenizer
    ok_fn = {"setup_newline_add", "newline_end_newline", "newlines_eat_start_end", "newlines_brace_pair", "parse_whitespace", "parse_off_newlines", "tokenize",
             "dump_in", "uncrustify::set_dump_file_name"}
    for f in db.funcs.values():
        if f.file == "src/uncrustify_emscripten.cpp":
            continue
        for n in f.nodes.values():
            if n["k"] == "call" and (n.get("c") or "").endswith("Chunk::SetType") and n.get("a") and expr_str(f, n["a"][0]) == "CT_NEWLINE":
                r.seen()
                r.check(f.qn in ok_fn, "newline-typed-in/%s" % f.qn, db.loc(f, n), "%s creates a plain CT_NEWLINE chunk: inside a #define that ends the directive" % f.qn)
    r.floor(8)


def rule_effects(ctx):
    common_effects.effects_rule(ctx, common_effects.FAMILIES, "shared effect census (C04.effects): with the mod_/cmt_/tokenizer-altering options at their defaults no "
                                "site that edits, creates, deletes or moves a non-newline chunk after tokenization is reachable")


def rule_fusion_table(ctx):
    from .common_fusion import fusion_table
    r = ctx.rule("fusion-table", "for every language and every pair of punctuators (both shorter than 4 characters) whose concatenation "
                 "lexes - by longest match over the language's punctuators plus the comment openers - to a longer first token, a "
                 "SetFlagBits(PCF_FORCE_SPACE) is reachable in space_text() (three-valued folding of the guard over the extracted table)")
    fusion_table(ctx, r)
    r.floor(1)


def rule_move_across_break(ctx):
    from .common_effects import move_across_break_rule
    move_across_break_rule(ctx)


def rule_newline_crossing(ctx):
    from .common_effects import newline_crossing_rule
    newline_crossing_rule(ctx)


def rule_no_codepoint_narrowing(ctx):
    """a code point taken for its low byte changes what the tokenizer sees: `+` U+012B was lexed as `++` and the identifier that
    starts with U+012B was split (shared with C09)"""
    from . import c09
    c09.rule_no_codepoint_narrowing(ctx)


RULES = [rule_lossless_tokenizer, rule_output_once, rule_fusion_guard, rule_fusion_table, rule_no_overlap, rule_nl_in_preproc, rule_effects, rule_newline_crossing, rule_move_across_break, rule_no_codepoint_narrowing]
