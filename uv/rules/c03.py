"""C03 Comments and literals survive intact.

Decided: every literal type the tokenizer's string parsers assign is one under which output_text() writes the chunk with
is_literal = true; every comment type assigned anywhere has an output_comment_* writer arm in output_text; no effect site
can rewrite chunk text with the comment/string options at their defaults (shared effect census); characters reach the
output only through add_char / add_text.
Not decided: the re-flow / re-indent arithmetic of the comment writers.
"""
import re
from ..facts import expr_str, walk, enum_consts
from . import common_effects, c08

OUT = "src/output.cpp"
TOK = "src/tokenizer/tokenize.cpp"


def rule_literal_flag_agreement(ctx):
    db = ctx.db
    r = ctx.rule("literal-flag-agreement", "L = token types assigned by the string parsers (parse_string, parse_cs_string*, parse_verbatim_string, "
                 "parse_cr_string, d_parse_string); O = types under which output_text passes is_literal=true to add_text; L is a subset of O")
    L = {}
    for f in db.funcs.values():
        if f.file != TOK or not any(s in f.qn for s in ("parse_string", "parse_cs_string", "parse_verbatim_string", "parse_cr_string")):
            continue
        for n in f.all_nodes():
            if n["k"] == "call" and (n.get("c") or "").endswith("Chunk::SetType"):
                L.setdefault(expr_str(f, n["a"][0]), (f, n))
    r.require(len(L) >= 2, "string parsers assign %s" % sorted(L))
    o = db.fn("output_text", file=OUT)
    r.names(o, "pc")
    O = set()
    calls = [n for n in o.all_nodes() if n["k"] == "call" and n.get("c") == "add_text" and len(n.get("a", ())) == 3 and expr_str(o, n["a"][0]) == "pc->GetStr()"]
    for n in calls:
        lit = n["a"][2]
        if o.nodes[lit]["k"] != "bool":
            cs = set(enum_consts(o, lit))
            ops = set(x.get("op") for x in walk(o, lit) if x["k"] == "bin")
            if ops <= {"||"}:
                O = cs if not O else (O & cs)
    r.require(O, "no add_text(pc->GetStr(), false, <literal test>) call found in output_text")
    for t, (f, n) in sorted(L.items()):
        r.seen()
        r.check(t in O, "literal-type/%s" % t, db.loc(f, n), "%s assigns %s, but output_text writes that type with is_literal=false (literal types: %s): a tab after a blank "
                "inside the literal is rewritten when indent_with_tabs=0" % (f.qn, t, sorted(O)))
    # is_literal really reaches add_char
    t = [f for f in db.fns("add_text") if f.file == OUT and "UncText" in f.d["sig"]][0]
    ac = [n for n in t.all_nodes() if n["k"] == "call" and n.get("c") == "add_char"]
    r.check(len(ac) == 1 and expr_str(t, ac[0]["a"][1]) == "is_literal", "add_text/forwards-is_literal", db.loc(t, t.l0), "add_text no longer forwards is_literal to add_char")
    r.floor(3)


def rule_comment_dispatch(ctx):
    db = ctx.db
    r = ctx.rule("comment-dispatch-exhaustive", "every CT_COMMENT* value that any SetType() call can give a chunk has an arm in output_text that calls an "
                 "output_comment_* writer")
    assigned = {}
    for f in db.funcs.values():
        for n in f.nodes.values():
            if n["k"] == "call" and (n.get("c") or "").endswith("Chunk::SetType") and n.get("a"):
                for c in enum_consts(f, n["a"][0]):
                    if c.startswith("CT_COMMENT"):
                        assigned.setdefault(c, (f, n))
    r.require(len(assigned) >= 3, "comment types assigned: %s" % sorted(assigned))
    o = db.fn("output_text", file=OUT)
    r.names(o, "pc")
    handled = set()
    for n in o.all_nodes():
        if n["k"] == "call" and (n.get("c") or "").startswith("output_comment_"):
            for cn, pol in o.guard_conds(o.nblock[n["i"]]):
                if pol is True and cn is not None:
                    handled |= set(c for c in enum_consts(o, cn) if c.startswith("CT_COMMENT"))
    for t, (f, n) in sorted(assigned.items()):
        r.seen()
        r.check(t in handled, "comment-type/%s" % t, db.loc(f, n), "%s gives a chunk the type %s, which output_text does not route to a comment writer (handled: %s)" % (f.qn, t, sorted(handled)))
    # each writer arm emits the chunk it was given: the writers are called with pc
    for n in o.all_nodes():
        if n["k"] == "call" and (n.get("c") or "").startswith("output_comment_"):
            r.check(expr_str(o, n["a"][0]) == "pc", "output_text/%s(pc)" % n["c"], db.loc(o, n), "%s is called with %s" % (n["c"], expr_str(o, n["a"][0])))
    r.floor(6)


def rule_effects(ctx):
    common_effects.effects_rule(ctx, common_effects.FAMILIES, "shared effect census (C04.effects): with the cmt_/sp_cmt_cpp_/string_replace_tab_chars/mod_ options at "
                                "their defaults no site that rewrites a chunk's text is reachable, except newline chunks and reviewed exceptions")


def rule_raw_write(ctx):
    c08.rule_single_writer(ctx, "raw-write")


def stuck_sites(funcs):
    """call-free loops with a branch inside the body whose operands the body never changes: every iteration repeats the
    same test (e.g. a comparison loop that forgets to advance its indices)"""
    out = []
    n_loops = 0
    for f in funcs:
        for h, body, backs in f.loops():
            mod = set()
            calls = False
            for b in body:
                for n in f.blocks[b]["n"]:
                    if n["k"] == "asg" or (n["k"] == "un" and n.get("op") in ("++", "--")):
                        for x in walk(f, n["a"][0]):
                            if x["k"] == "ref":
                                mod.add(x["n"])
                    if n["k"] == "decl":
                        for v in n.get("vars", ()):
                            mod.add(v["n"])
                    if n["k"] in ("call", "ctor", "new", "delete") and "::operator[]" not in (n.get("c") or ""):
                        calls = True
            if calls:
                continue
            n_loops += 1
            for b in body:
                if b == h:
                    continue
                t = f.blocks[b].get("term")
                c = t.get("lc", t.get("c")) if t else None
                if c is None or len(f.succ[b]) != 2:
                    continue
                refs = [x for x in walk(f, c) if x["k"] == "ref" and x.get("d") in ("lv", "pv")]
                if refs and not any(x["n"] in mod for x in refs):
                    out.append((f, t, c, sorted(mod)))
    return out, n_loops


def rule_stuck_iteration(ctx):
    """Found on the pinned tree: tag_compare() compared d[a_idx] with d[b_idx] `len` times without advancing, so a C++ raw
    string ended at the first `)x"` whose x starts like the delimiter, and the rest of the literal was formatted as code."""
    from .. import selfcheck
    db = ctx.db
    r = ctx.rule("stuck-iteration", "in every call-free loop each branch inside the body reads something the body changes (no comparison is "
                 "repeated unchanged on every iteration)")
    sites, n_loops = stuck_sites([f for f in db.funcs.values() if f.file.startswith("src/")])
    r.require(n_loops >= 15, "only %d call-free loops found" % n_loops)
    pos, _ = stuck_sites(selfcheck.funcs_of("stuck_iteration"))
    r.require(len(pos) == 1 and pos[0][0].qn == "stuck_compare", "the positive example selftest/positive/stuck_iteration.cpp is not matched exactly once (%s)" % [x[0].qn for x in pos])
    r.seen(n_loops)
    for f, t, c, mod in sites:
        r.fail("%s/%s" % (f.qn, expr_str(f, c)[:50]), "%s:%s" % (f.file, t.get("l")), "the loop body changes only %s, but tests `%s` on every iteration: the test "
               "never moves on" % (mod, expr_str(f, c)[:80]))
    if not sites:
        r.ok("all-call-free-loops", None, "%d loops" % n_loops)
    r.floor(1)


def rule_continuation_count_per_line(ctx):
    """A `//` comment continues onto the next line iff an odd number of backslashes ends the line.  The count is a per-line
    quantity: a line that adds no character (an empty continuation line) must not inherit the previous line's count, or the
    code line after it becomes comment text."""
    db = ctx.db
    r = ctx.rule("continuation-count-per-line", "in parse_comment() every path from the header of the per-line loop of the `//` branch to the "
                 "parity test of the backslash counter passes an assignment/initialisation of the counter to a constant (the count of "
                 "the previous line cannot reach the test)")
    f = db.fn("parse_comment", file="src/tokenizer/tokenize.cpp")
    r.names(f, "bs_cnt")
    tests = []
    for b, blk in f.blocks.items():
        t = blk.get("term")
        c = t.get("lc", t.get("c")) if t else None
        if c is not None and "bs_cnt" in expr_str(f, c) and "&" in expr_str(f, c):
            tests.append((b, c))
    r.require(tests, "the parity test of bs_cnt was not found")
    resets = set()
    for n in f.all_nodes():
        if n["k"] == "decl" and any(v["n"] == "bs_cnt" and v.get("init") is not None and (f.nodes.get(v["init"]) or {}).get("k") == "int" for v in n.get("vars", ())):
            resets.add(n["i"])
        if n["k"] == "asg" and n.get("op") == "=" and expr_str(f, n["a"][0]) == "bs_cnt" and (f.nodes.get(n["a"][1]) or {}).get("k") == "int":
            resets.add(n["i"])
    for b, c in tests:
        r.seen()
        loops = [(h, body) for h, body, backs in f.loops() if b in body]
        r.require(loops, "the parity test is not inside a loop")
        h, body = max(loops, key=lambda x: len(x[1]))      # the per-line loop (outermost)
        # a path header -> test, inside the loop body, that meets no constant (re)initialisation
        from collections import deque
        seen = set()
        dq = deque([h])
        leak = False
        while dq and not leak:
            x = dq.popleft()
            if x in seen:
                continue
            seen.add(x)
            hit = False
            for n in f.blocks[x]["n"]:
                if n["i"] in resets:
                    hit = True
                    break
                if n["i"] == c:
                    leak = True
                    break
            if hit or leak:
                continue
            if x == b:
                leak = True
                continue
            for s2 in f.succ[x]:
                if s2 >= 0 and s2 in body and s2 != h:
                    dq.append(s2)
        r.check(not leak, "parse_comment/bs_cnt-reset-per-line", db.loc(f, f.blocks[b]["term"]["l"]),
                "the parity test of bs_cnt can be reached from the start of a line's iteration without a reset of the counter: an empty "
                "continuation line inherits the odd count of the line before and the following code line is swallowed by the comment")
    r.floor(1)


NOT_COMMENT_NAV = re.compile(r"->(GetNextNc\w*|GetPrevNc\w*|GetNextNnl\w*Nc\w*|GetNextNl|GetPrevNl|GetClosingParen|GetOpeningParen|GetNextType|GetPrevType|GetNextString|GetPrevString)\(")


def _not_comment_fact(s, pol, x):
    """does the controlling fact (text s, polarity pol) say that chunk x is not a comment"""
    m = re.match(r"^%s = .*->(IsNewline|IsSemicolon)\(\)$" % re.escape(x), s)
    if m:                                               # if ((x = ...)->IsNewline())
        return pol is True
    if " || " in s and " && " not in s:
        return pol is True and all(_not_comment_fact(t.strip(), True, x) for t in s.split(" || "))
    if not s.startswith(x + "->") and not s.startswith("!" + x + "->") and not ("(" + x + "->") in s:
        return False
    m = re.match(r"^%s->Is\((CT_\w+)\)$" % re.escape(x), s)
    if m:
        return pol is True and not m.group(1).startswith("CT_COMMENT")
    if s in (x + "->IsNewline()", x + "->IsSemicolon()", x + "->IsVBrace()", x + "->IsBraceOpen()", x + "->IsBraceClose()", x + "->IsParenOpen()",
             x + "->IsParenClose()", x + "->IsNullChunk()"):
        return pol is True
    if s in (x + "->IsComment()", x + "->IsCommentOrNewline()", x + "->IsCommentNewlineOrPreproc()"):
        return pol is False
    if s == "!" + x + "->IsComment()":
        return pol is True
    if re.match(r"^strcmp\(%s->Text\(\), \"[^\"/]*\"\) == 0$" % re.escape(x), s) or re.match(r"^%s->IsString\(\"[^\"/]*\"(, \w+)?\)$" % re.escape(x), s):
        return pol is True
    return False


def rule_deletes_spare_comments(ctx):
    """`every comment of the input appears exactly once in the output`: a pass may delete chunks, but not a comment chunk"""
    from ..flow import ReachingDefs, var_id
    db = ctx.db
    r = ctx.rule("deletes-spare-comments", "every Chunk::Delete(x) outside the teardown is controlled by a fact that x is not a comment (a type test "
                 "for a non-comment type, IsNewline/IsSemicolon/..., !IsComment, a text comparison), or x comes only from a navigation that "
                 "skips comments (GetNextNc*, GetClosingParen, GetNextType...), or x is a parameter and every caller's argument is "
                 "such a chunk")
    rds = {}

    def rd_of(f):
        if f.key not in rds:
            rds[f.key] = ReachingDefs(f, db)
        return rds[f.key]

    def safe(f, site, arg, depth=0):
        """site: node at which chunk expression node `arg` must not be a comment"""
        x = expr_str(f, arg)
        a = f.nodes.get(arg)
        while a is not None and a["k"] == "cast":
            a = f.nodes.get(a["a"][0])
        is_var = a is not None and a["k"] == "ref" and a.get("d") in ("lv", "pv")
        here = set(id(q[1]) for q in rd_of(f).at(site["i"], var_id(a))) if is_var else None
        for cn, pol in f.guard_conds(f.nblock[site["i"]]):
            if cn is not None and _not_comment_fact(expr_str(f, cn), pol, x):
                # the fact must be about the value the variable has at the site (not about one it held before a re-assignment)
                anchor = cn
                if f.nblock.get(anchor) is None:            # a short-circuit operator is a terminator, not a block element
                    sub = [y["i"] for y in walk(f, cn) if f.nblock.get(y["i"]) is not None]
                    anchor = sub[-1] if sub else None
                if is_var and anchor is not None and set(id(q[1]) for q in rd_of(f).at(anchor, var_id(a))) != here:
                    continue
                return True
        if a is None:
            return False
        if a["k"] == "call":
            return bool(NOT_COMMENT_NAV.search(x))
        if a["k"] != "ref" or a.get("d") not in ("lv", "pv"):
            return False
        defs = rd_of(f).at(site["i"], var_id(a))
        is_param = a.get("d") == "pv"
        if defs:
            ok = True
            for info in defs:
                rhs = rd_of(f).rhs_of(info)
                if rhs is None and info[0] == "byref" and info[1].get("c") == "Chunk::Delete":
                    continue                          # Chunk::Delete(x) leaves x = the null chunk
                if rhs is None:
                    return False
                rs = expr_str(f, rhs)
                if NOT_COMMENT_NAV.search(rs) or rs in ("Chunk::NullChunkPtr", "NullChunkPtr"):
                    continue                          # Chunk::Delete() returns at once on the null chunk
                rn = f.nodes.get(rhs)
                while rn is not None and rn["k"] == "cast":
                    rn = f.nodes.get(rn["a"][0])
                if rn is not None and rn["k"] == "ref" and depth < 3 and safe(f, info[1], rhs, depth + 1):
                    continue
                ok = False
            if ok and not is_param:
                return True
            if not ok:
                return False
        if is_param and depth < 2:
            idx = [i for i, p in enumerate(f.d.get("params", ())) if p["n"] == a["n"]]
            callers = db.callers_of_key(f.key)
            if not idx or not callers:
                return False
            for g, c in callers:
                if len(c.get("a", ())) <= idx[0] or not safe(g, c, c["a"][idx[0]], depth + 1):
                    return False
            return True
        return False

    n = 0
    for f in sorted(db.funcs.values(), key=lambda g: (g.file, g.l0)):
        if not f.file.startswith("src/"):
            continue
        for c in db.calls_in(f, "Chunk::Delete"):
            if not c.get("a"):
                continue
            n += 1
            r.seen()
            x = expr_str(f, c["a"][0])
            r.check(safe(f, c, c["a"][0]), "%s/Delete(%s)" % (f.qn.split("::")[-1], x), db.loc(f, c),
                    "nothing says that `%s` is not a comment when it is deleted" % x)
    # checked precondition of the exception for remove_duplicate_include/Delete(temp): the list of known includes holds at
    # most one entry, so the loop over it cannot move `pc` before a match
    g = db.fn("remove_duplicate_include")
    pushes = [x for x in g.all_nodes() if x["k"] == "call" and (x.get("c") or "").endswith("::push_back") and expr_str(g, x.get("o")) == "includes"]
    r.check(bool(pushes) and all(("includes.empty()", True) in [(expr_str(g, cn), pol) for cn, pol in g.guard_conds(g.nblock[x["i"]]) if cn is not None] for x in pushes),
            "remove_duplicate_include/includes-holds-one-entry", db.loc(g, pushes[0] if pushes else g.l0),
            "`includes` can grow beyond one entry: the loop over it then moves `pc` to a newline before a later match, and Delete(temp) removes that newline "
            "instead of the `include` token")
    r.require(n >= 45, "only %d Chunk::Delete call sites found" % n)
    r.floor(45)


def rule_newline_crossing(ctx):
    from .common_effects import newline_crossing_rule
    newline_crossing_rule(ctx)


RULES = [rule_literal_flag_agreement, rule_comment_dispatch, rule_effects, rule_raw_write, rule_newline_crossing, rule_stuck_iteration, rule_continuation_count_per_line, rule_deletes_spare_comments]
