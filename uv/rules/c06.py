"""C06 Any input terminates cleanly: formatted, or refused with a diagnostic.

Decided: (sentinel-divergence) no loop that walks the chunk list with the navigation family can spin forever on the
null chunk; (null-links-immutable) the lemma that makes the null chunk a fixed point of that family; (no-throw) no
throwing std conversion / regex construction on run-time text outside a try block; (exit-discipline) every non-zero
exit has a documented status and is preceded by a diagnostic; (no-error-after-output) once output_text() has written
the formatted source no error exit is reachable.
Not decided: general memory safety / undefined behaviour (needs a value analysis of 75 kLoC of C++), wall-time bounds.
"""
import re

from ..facts import expr_str, walk, in_macro, enum_consts, global_path
from ..nullwalk import NullWalk, is_chunk_ptr
from .common_io import UNC, is_exit_call, exit_status, is_call
from .c16 import throwing_call

_nw = {}


def nullwalk(db):
    if id(db) not in _nw:
        _nw[id(db)] = NullWalk(db)
    return _nw[id(db)]


def rule_eof_divergence(ctx):
    """analysis A9 (uv/eofwalk.py): no input-consuming loop of the tokenizer is inescapable at the end of the input"""
    from ..eofwalk import EofWalk
    db = ctx.db
    r = ctx.rule("eof-divergence", "no loop of the tokenizer that reads through TokenContext is definitely inescapable at the end of the input, "
                 "where more() is false, peek()/get() return 0 and get() makes no progress (three-valued evaluation of the loop conditions "
                 "in the loop's steady state at EOF; character classes and small helper functions evaluated at 0)")
    ew = EofWalk(db)
    for prob in ew.check_model():
        r.require(False, prob)
    # sanity of the evaluator on two facts the analysis leans on
    sp = db.fn("unc_isspace")
    r.require(ew.call_const(sp, [("int", 0)], 0) == ("int", 0), "unc_isspace(0) no longer evaluates to 0")
    n = 0
    for f in db.funcs.values():
        if not any(p["t"].startswith("TokenContext") for p in f.d.get("params", ())) and f.d.get("cls") != "TokenContext":
            continue
        cnt = {}
        for h, body, backs in f.loops():
            if not ew.consumes(f, body):
                continue
            n += 1
            r.seen()
            res = ew.analyse_loop(f, h, body)
            t = f.blocks[h].get("term")
            cond = expr_str(f, t.get("c"))[:50] if t and t.get("c") is not None else "body"
            cnt[cond] = cnt.get(cond, 0) + 1
            inst = "%s/%s%s" % (f.qn, cond, "" if cnt[cond] == 1 else "#%d" % cnt[cond])
            if res is None:
                r.ok(inst, "%s:%d" % (f.file, f.blocks[h]["n"][0]["l"] if f.blocks[h]["n"] else f.l0))
            else:
                r.fail(inst, "%s:%d" % (f.file, res["header_line"]),
                       "the loop `%s` cannot be left at the end of the input (more() false, peek()/get() == 0%s): a file that ends inside this "
                       "construct hangs uncrustify" % (res["cond"], "".join(", %s == %s" % kv for kv in sorted(res["env"].items()))))
    r.note("input-consuming loops analysed: %d" % n)
    r.floor(40, "input-consuming loops")


def rule_sentinel_divergence(ctx):
    db = ctx.db
    r = ctx.rule("sentinel-divergence", "no loop whose cursor(s) advance only through the chunk navigation family is definitely "
                 "inescapable once the cursor is the null chunk (truth of every Chunk predicate on the null chunk derived from chunk.h)")
    nw = nullwalk(db)
    r.require(len(nw.nav) >= 25, "only %d navigation methods are closed over the null chunk (chunk.h/chunk.cpp changed shape): %s" % (len(nw.nav), sorted(nw.nav)))
    for q, want in (("Chunk::Is", False), ("Chunk::IsNot", True), ("Chunk::IsNullChunk", True), ("Chunk::IsNotNullChunk", False), ("Chunk::IsNewline", False), ("Chunk::IsComment", False)):
        r.require(nw.truth(q) is want, "derived value of %s on the null chunk is %s (expected %s): the evaluator lost chunk.h" % (q, nw.truth(q), want))
    n_loops = n_cursor = 0
    for f in db.funcs.values():
        if f.file == "src/uncrustify_emscripten.cpp":
            continue
        cnt = {}
        for h, body, backs in f.loops():
            n_loops += 1
            C = nw.cursors(f, body)
            if not C:
                continue
            n_cursor += 1
            r.seen()
            res = nw.analyse_loop(f, h, body)
            key = "+".join(sorted(C))
            cnt[key] = cnt.get(key, 0) + 1
            inst = "%s/%s%s" % (f.qn, key, "" if cnt[key] == 1 else "#%d" % cnt[key])
            if res is None:
                r.ok(inst, "%s:%d" % (f.file, f.blocks[h]["n"][0]["l"] if f.blocks[h]["n"] else f.l0))
            else:
                r.fail(inst, "%s:%d" % (f.file, res["header_line"]),
                       "the loop over `%s` (condition `%s`) cannot be left once the cursor is the null chunk: Is() is false, IsNot() is true and "
                       "GetNext*/GetPrev* return the null chunk again, so a missing token (truncated or unbalanced input) hangs uncrustify"
                       % (key, res["cond"]))
    r.note("natural loops: %d, with a chunk cursor: %d, navigation methods: %d" % (n_loops, n_cursor, len(nw.nav)))
    r.floor(300, "cursor loops")
    # precondition of the reviewed exception: collapse_empty_body is only called when the closing brace follows
    for f, n in db.callers_of("collapse_empty_body"):
        conds = [(expr_str(f, cn), pol) for cn, pol in f.guard_conds(f.nblock[n["i"]]) if cn is not None]
        r.check(("br_open->GetNextNnl(ALL)->Is(CT_BRACE_CLOSE)", True) in conds, "collapse_empty_body/called-only-before-brace-close/%s" % f.qn, db.loc(f, n),
                "collapse_empty_body() is called without the guard that the next non-newline chunk is the closing brace")


def rule_sentinel_not_freed(ctx):
    """The null chunk is a static object; navigation returns it for "no such chunk", so any Chunk::Delete(X) whose X comes
    from a navigation call can receive it (found: remove_duplicate_include at the end of a file without a final newline,
    `free(): invalid pointer`).  Chunk::Delete itself must refuse it."""
    db = ctx.db
    r = ctx.rule("sentinel-not-freed", "in Chunk::Delete the `delete` expression and the list removal are dominated by the fact that the "
                 "argument is not the null chunk")
    f = [g for g in db.fns("Chunk::Delete")]
    r.require(f, "Chunk::Delete not found")
    f = f[0]
    dels = [n for n in f.all_nodes() if n["k"] == "delete" or (n["k"] == "call" and (n.get("c") or "").endswith("::Remove"))]
    r.require(dels, "Chunk::Delete no longer deletes")
    for n in dels:
        r.seen()
        cs = [(expr_str(f, cn), pol) for cn, pol in f.guard_conds(f.nblock[n["i"]]) if cn is not None]
        ok = ("pc->IsNullChunk()", False) in cs or ("pc->IsNotNullChunk()", True) in cs or ("pc == NullChunkPtr", False) in cs or ("pc != NullChunkPtr", True) in cs
        r.check(ok, "Chunk::Delete/%s" % ("delete" if n["k"] == "delete" else "Remove"), db.loc(f, n),
                "Chunk::Delete() frees / unlinks its argument without excluding the static null chunk, which every navigation call returns "
                "for 'no such chunk' (facts: %s)" % cs)
    r.floor(2)


def rule_null_links_immutable(ctx):
    db = ctx.db
    r = ctx.rule("null-links-immutable", "m_next/m_prev are stored only in ChunkListManager and Chunk::CopyFrom/Reset; every store through a "
                 "pointer either writes NullChunkPtr or is guarded by `!= NullChunkPtr` on that pointer (AddTail/AddHead: callers pass a "
                 "fresh chunk); m_nullChunk is const")
    rec = db.records.get("Chunk")
    r.require(rec is not None, "record Chunk not found")
    fld = [x for x in rec["fields"] if x["n"] == "m_nullChunk"]
    r.check(len(fld) == 1 and fld[0]["const"] == 1, "Chunk::m_nullChunk-const", "%s:%d" % (rec["file"], rec["l"]), "m_nullChunk is not a const member")
    n = 0
    for f in db.funcs.values():
        for x in f.nodes.values():
            if x["k"] != "asg":
                continue
            t = f.nodes.get(x["a"][0])
            if t is None or t["k"] != "mem" or t["n"] not in ("m_next", "m_prev") or "Chunk::" not in t.get("qn", ""):
                continue
            n += 1
            r.seen()
            base = expr_str(f, t["b"])
            val = expr_str(f, x["a"][1])
            inst = "%s/%s->%s" % (f.qn, base, t["n"])
            owner = f.d.get("cls") in ("ChunkListManager", "Chunk")
            if not r.check(owner, inst + "/owner", db.loc(f, x), "%s writes a chunk link outside ChunkListManager/Chunk" % f.qn):
                continue
            if val == "NullChunkPtr":
                r.ok(inst + "=null", db.loc(f, x))
                continue
            conds = [(expr_str(f, cn), pol) for cn, pol in f.guard_conds(f.nblock[x["i"]]) if cn is not None]
            guarded = ("%s != NullChunkPtr" % base, True) in conds or ("%s == NullChunkPtr" % base, False) in conds
            if not guarded and f.qn in ("ChunkListManager::AddTail", "ChunkListManager::AddHead") and base == "obj":
                # every caller passes a freshly allocated chunk
                fresh = True
                sites = db.callers_of_key(f.key)
                for g, c in sites:
                    a = g.nodes.get(c["a"][0])
                    ok = False
                    if a is not None and a["k"] == "ref" and a.get("d") == "lv":
                        defs = [v for d in g.all_nodes() if d["k"] == "decl" for v in d["vars"] if v["n"] == a["n"] and "init" in v]
                        ok = bool(defs) and all(g.nodes[v["init"]]["k"] == "new" for v in defs) and not any(
                            y["k"] == "asg" and expr_str(g, y["a"][0]) == a["n"] for y in g.all_nodes())
                    if not ok and a is not None:
                        cs = [(expr_str(g, cn), pol) for cn, pol in g.guard_conds(g.nblock[c["i"]]) if cn is not None]
                        an = expr_str(g, a["i"])
                        ok = ("%s->IsNotNullChunk()" % an, True) in cs or ("%s != NullChunkPtr" % an, True) in cs or ("%s->IsNullChunk()" % an, False) in cs
                    fresh = fresh and ok
                guarded = fresh and bool(sites)
            r.check(guarded, inst, db.loc(f, x), "`%s` can execute with %s == NullChunkPtr: the null chunk's links would stop being a fixed point "
                    "and every list walk that relies on it could loop or crash (controlling conditions: %s)" % (expr_str(f, x["i"]), base, conds))
    r.require(n >= 16, "only %d link stores found" % n)
    r.floor(16)


def _size_lower_bounds(f, n, db):
    """{receiver-root expression: minimal size} from the dominating facts of node n: `R->Len() >= k`, `R.size() > k`,
    `R->GetStr().size() > k` ... (true polarity), looking through a local bool flag whose single definition is a
    conjunction"""
    import re
    from ..flow import ReachingDefs, var_id
    out = {}

    def leaf(s, pol):
        m = re.match(r"^(.*?)(?:->Len\(\)|(?:->(?:GetStr|Str)\(\))?\.size\(\)|\.length\(\)) (>=|>|!=|==) (\d+)$", s)
        if m and pol is True and m.group(2) in (">=", ">"):
            k = int(m.group(3)) + (1 if m.group(2) == ">" else 0)
            out[m.group(1)] = max(out.get(m.group(1), 0), k)
        m = re.match(r"^(.*?)(?:->Len\(\)|(?:->(?:GetStr|Str)\(\))?\.size\(\)) (<|<=|==) (\d+)$", s)
        if m and pol is False and m.group(2) in ("<", "<="):
            k = int(m.group(3)) + (1 if m.group(2) == "<=" else 0)
            out[m.group(1)] = max(out.get(m.group(1), 0), k)

    def conj(i, depth=0):
        x = f.nodes.get(i)
        if x is None or depth > 6:
            return
        if x["k"] == "bin" and x.get("op") == "&&":
            conj(x["a"][0], depth + 1)
            conj(x["a"][1], depth + 1)
        elif x["k"] == "cast":
            conj(x["a"][0], depth + 1)
        else:
            leaf(expr_str(f, i), True)
    rd = None
    for cn, pol in f.guard_conds(f.nblock[n["i"]]):
        if cn is None or not isinstance(pol, bool):
            continue
        leaf(expr_str(f, cn), pol)
        c = f.nodes.get(cn)
        if c is not None and c["k"] == "ref" and c.get("d") == "lv" and pol is True:
            rd = rd or ReachingDefs(f, db)
            defs = list(rd.at(cn, var_id(c)))
            hard = [d for d in defs if d[0] in ("decl", "asg")]
            # flag idiom: `bool flag = A && B && C; ... flag = false; ... if (flag)`: true only through the conjunction
            for d in hard:
                rhs = rd.rhs_of(d)
                x = f.nodes.get(rhs) if rhs is not None else None
                if x is not None and x["k"] == "bool" and x["v"] == 0:
                    continue
                if x is not None and all((f.nodes.get(rd.rhs_of(o)) or {}).get("k") == "bool" and f.nodes[rd.rhs_of(o)]["v"] == 0 for o in hard if o is not d):
                    conj(rhs)
    return out


def rule_text_index(ctx):
    """a checked index (`.at(k)`) into a chunk's text throws std::out_of_range, which nothing catches: each such site
    needs a dominating length test.  (Found on the pinned tree: `/*x` at the end of the input with
    cmt_trailing_single_line_c_to_cpp aborted; repaired by a fix: commit.)"""
    import re
    db = ctx.db
    r = ctx.rule("text-index", "every UncText::at(k) / std::basic_string::at(k) with a constant index is dominated by a length test of the "
                 "same text that makes the index valid (directly, through a bool flag defined as a conjunction, or through the length "
                 "argument of the UncText the receiver was constructed from)")
    n_sites = 0
    for f in db.funcs.values():
        if f.d.get("cls") == "UncText" or f.file == "src/uncrustify_emscripten.cpp":
            continue
        for n in f.nodes.values():
            c = n.get("c") or ""
            if n["k"] != "call" or not (c == "UncText::at" or (c.startswith("std::basic_string<") and c.endswith("::at"))):
                continue
            n_sites += 1
            r.seen()
            idx = f.nodes.get(n["a"][0]) if n.get("a") else None
            while idx is not None and idx["k"] == "cast":
                idx = f.nodes.get(idx["a"][0])
            recv = expr_str(f, n["o"]) if "o" in n else "?"
            inst = "%s/%s.at(%s)" % (f.qn, recv, expr_str(f, n["a"][0]) if n.get("a") else "")
            loc = db.loc(f, n)
            if idx is None or idx["k"] != "int":
                r.fail(inst, loc, "index `%s` of a throwing text accessor is not a constant; no length argument is derived for it" % (expr_str(f, n["a"][0]) if n.get("a") else "?"))
                continue
            k = idx["v"]
            lb = _size_lower_bounds(f, n, db)
            root = re.sub(r"(->(GetStr|Str)\(\))$", "", recv)
            have = max(lb.get(root, 0), lb.get(recv, 0))
            if have == 0:
                # receiver is a local UncText built as UncText(src, 0, L) with L = `X->Len() - c`
                o = f.nodes.get(n.get("o"))
                if o is not None and o["k"] == "ref" and o.get("d") == "lv":
                    for m in f.nodes.values():
                        if m["k"] == "decl":
                            for v in m.get("vars", ()):
                                if v["n"] == o["n"] and v.get("init") is not None:
                                    ini = f.nodes.get(v["init"])
                                    while ini is not None and ini["k"] == "cast":
                                        ini = f.nodes.get(ini["a"][0])
                                    if ini is not None and ini["k"] == "ctor" and len(ini.get("a", ())) >= 3:
                                        L = expr_str(f, ini["a"][2])
                                        mm = re.match(r"^(.*?)->Len\(\) - (\d+)$", L)
                                        if mm:
                                            have = max(0, lb.get(mm.group(1), 0) - int(mm.group(2)))
            r.check(have >= k + 1, inst, loc, "`%s.at(%d)` needs a text of at least %d characters, the dominating tests guarantee %d: a shorter "
                    "text (e.g. a construct cut off by the end of the input) throws std::out_of_range, which nothing catches (SIGABRT)"
                    % (recv, k, k + 1, have))
    r.require(n_sites >= 2, "only %d constant-index text accessors found" % n_sites)
    r.floor(2)


_ES = {"char": 1, "UINT8": 1, "unsigned char": 1, "uint8_t": 1, "UINT32": 4, "uint32_t": 4, "int": 4, "wchar_t": 4, "unsigned int": 4}


def _extent(db, f, i, depth=0):
    """(bytes, offset expression or None, name, element size) of a destination that is (inside) a fixed-size array: an array
    typed local/field/global, `&a[k]`, `a + k`, or a pointer parameter every caller binds to such an array"""
    import re
    n = f.nodes.get(i)
    while n is not None and n["k"] == "cast":
        n = f.nodes.get(n["a"][0])
    if n is None or depth > 3:
        return None
    if n["k"] in ("ref", "mem"):
        m = re.match(r"^(?:const )?([\w ]+?)\s*\[(\d+)\]$", n.get("t") or "")
        if m and m.group(1) in _ES:
            return (int(m.group(2)) * _ES[m.group(1)], None, expr_str(f, n["i"]), _ES[m.group(1)])
        if n["k"] == "ref" and n.get("d") == "pv":
            ps = [p["n"] for p in f.d["params"]]
            cs = db.callers_of_key(f.key)
            if n["n"] in ps and cs:
                k = ps.index(n["n"])
                best = None
                for g, c in cs:
                    if len(c.get("a", ())) <= k:
                        return None
                    e = _extent(db, g, c["a"][k], depth + 1)
                    if e is None or e[1] is not None:
                        return None
                    best = e[0] if best is None else min(best, e[0])
                return (best, None, n["n"], 1)
        return None
    if n["k"] == "un" and n.get("op") == "&":
        x = f.nodes.get(n["a"][0])
        if x is not None and x["k"] == "idx":
            e = _extent(db, f, x["a"][0], depth + 1)
            if e is not None and e[1] is None:
                return (e[0], x["a"][1], e[2], e[3])
    if n["k"] == "bin" and n.get("op") == "+":
        e = _extent(db, f, n["a"][0], depth + 1)
        if e is not None and e[1] is None:
            return (e[0], n["a"][1], e[2], e[3])
    return None


def rule_bounded_copy(ctx):
    """analysis A10 (uv/bounds.py): every write into a fixed-size buffer stays inside it"""
    from ..bounds import Bounds
    db = ctx.db
    r = ctx.rule("bounded-copy", "every memcpy/memmove/memset/strncpy/strcpy/strcat into, and every subscript store to, a fixed-size character "
                 "buffer (array typed local, field or global, or a pointer parameter that every caller binds to one) has offset + length <= "
                 "extent by interval facts (literals, sizeof, dominating comparisons, BoundedOption ranges, loop-exit facts), and no unsigned "
                 "subtraction in a length or index can wrap")
    COPY = {"memcpy": (0, 2), "memmove": (0, 2), "strncpy": (0, 2), "memset": (0, 2), "strcpy": (0, None), "strcat": (0, None), "strncat": (0, 2)}
    n_sites = 0
    cnt = {}

    def key_of(f, what):
        k = "%s/%s" % (f.qn, what[:60])
        cnt[k] = cnt.get(k, 0) + 1
        return k if cnt[k] == 1 else "%s#%d" % (k, cnt[k])

    def strlen_ub(f, B, src):
        """upper bound of strlen(src): literal, or a local defined as strlen(src) that the facts bound"""
        y = f.nodes.get(src)
        while y is not None and y["k"] == "cast":
            y = f.nodes.get(y["a"][0])
        if y is not None and y["k"] == "str":
            return len(y["v"])
        s = expr_str(f, src)
        best = None
        for m in f.nodes.values():
            if m["k"] == "decl":
                for v in m.get("vars", ()):
                    ini = f.nodes.get(v.get("init")) if v.get("init") is not None else None
                    while ini is not None and ini["k"] == "cast":
                        ini = f.nodes.get(ini["a"][0])
                    if ini is not None and ini["k"] == "call" and ini.get("c") == "strlen" and ini.get("a") and expr_str(f, ini["a"][0]) == s:
                        lb, ub = B._from_facts(v["n"])
                        if ub is not None:
                            best = ub if best is None else min(best, ub)
        return best

    reach = db.reachable_from([db.fn("main", file=UNC)])
    for f in db.funcs.values():
        if f.file == "src/uncrustify_emscripten.cpp" or f.key not in reach:
            continue
        for n in f.nodes.values():
            if n["k"] == "call" and n.get("c") in COPY and n.get("a"):
                di, li = COPY[n["c"]]
                e = _extent(db, f, n["a"][di])
                if e is None:
                    continue
                n_sites += 1
                r.seen()
                B = Bounds(db, f, n["i"])
                off = (0, 0) if e[1] is None else B.interval(e[1])
                inst = key_of(f, expr_str(f, n["i"]))
                loc = db.loc(f, n)
                if li is not None:
                    ln = B.interval(n["a"][li])
                elif n["c"] == "strcpy":
                    u = strlen_ub(f, B, n["a"][1])
                    ln = (1, u + 1 if u is not None else None)
                else:  # strcat(dest, literal): strlen(dest) <= largest index at which a NUL was stored on every path
                    u = strlen_ub(f, B, n["a"][1])
                    dest = expr_str(f, n["a"][0])
                    nuls = [m for m in f.all_nodes() if m["k"] == "asg" and m.get("op") == "=" and (f.nodes.get(m["a"][0]) or {}).get("k") == "idx"
                            and expr_str(f, f.nodes[m["a"][0]]["a"][0]) == dest and (f.nodes.get(m["a"][1]) or {}).get("k") in ("int", "chr") and f.nodes[m["a"][1]]["v"] == 0]
                    w = f.paths_avoiding(f.entry, lambda x: x["i"] == n["i"], lambda x: any(x["i"] == m["i"] for m in nuls), start_is_node=False)
                    cur = None
                    if nuls and w is None:
                        ubs = [Bounds(db, f, m["i"]).interval(f.nodes[m["a"][0]]["a"][1])[1] for m in nuls]
                        cur = max(ubs) if all(x is not None for x in ubs) else None
                    ln = (0, cur + u + 1 if cur is not None and u is not None else None)
                bad_wrap = [expr_str(f, i) for i, proved, a, b in B.underflow if not proved]
                if bad_wrap:
                    r.fail(inst, loc, "the unsigned subtraction `%s` in the length/offset of this write can wrap (no dominating fact orders its operands): "
                           "the length becomes ~2^64 and the write runs far past the %d-byte buffer `%s`" % (bad_wrap[0], e[0], e[2]))
                    continue
                ok = off[1] is not None and ln[1] is not None and off[1] + ln[1] <= e[0]
                r.check(ok, inst, loc, "write of up to %s bytes at offset up to %s into the %d-byte buffer `%s` is not bounded by the facts that "
                        "dominate it" % (ln[1] if ln[1] is not None else "an unbounded number of", off[1] if off[1] is not None else "unbounded", e[0], e[2]))
            elif n["k"] == "asg" and (f.nodes.get(n["a"][0]) or {}).get("k") == "idx":
                ix = f.nodes[n["a"][0]]
                e = _extent(db, f, ix["a"][0])
                if e is None or e[1] is not None or e[3] != 1:
                    continue
                n_sites += 1
                r.seen()
                B = Bounds(db, f, n["i"])
                iv = B.interval(ix["a"][1])
                inst = key_of(f, expr_str(f, n["i"]))
                bad_wrap = [expr_str(f, i) for i, proved, a, b in B.underflow if not proved]
                if bad_wrap:
                    r.fail(inst, db.loc(f, n), "the unsigned subtraction `%s` in this index can wrap: the store lands far outside the %d-byte buffer `%s`"
                           % (bad_wrap[0], e[0], e[2]))
                    continue
                r.check(iv[1] is not None and iv[1] < e[0], inst, db.loc(f, n), "index up to %s into the %d-byte buffer `%s` is not bounded by the facts that "
                        "dominate the store" % (iv[1] if iv[1] is not None else "unbounded", e[0], e[2]))
    # checked precondition of the exception for language_name_from_flags: the names it concatenates come from the constant
    # table language_names[]; all of them joined with ", " fit into the buffer
    ln_tab = [g for g in db.globals if g["qn"] == "language_names" and (g.get("init") or {}).get("k") == "init"]
    if r.check(bool(ln_tab), "language_names/table-extracted", None, "the language_names[] table was not extracted"):
        names = [row["a"][0]["v"] for row in ln_tab[0]["init"]["a"] if row.get("a") and row["a"][0].get("k") == "str"]
        total = sum(len(x) + 2 for x in names) + 1
        lf = db.fn("language_name_from_flags")
        ext = [int(mm.group(1)) for x in lf.nodes.values() for mm in [re.match(r"char\[(\d+)\]$", x.get("t") or "")] if mm and x.get("n") == "lang_liste"]
        r.check(bool(ext) and total <= min(ext), "language_name_from_flags/all-names-fit", db.loc(lf, lf.l0),
                "all %d language names joined with ', ' need %d bytes, lang_liste has %s" % (len(names), total, ext[:1]))
    r.require(n_sites >= 25, "only %d writes into fixed-size buffers found" % n_sites)
    r.note("writes into fixed-size character buffers: %d" % n_sites)
    r.floor(25)


def rule_no_throw(ctx):
    db = ctx.db
    r = ctx.rule("no-throw", "every std::basic_regex construction/assignment from a non-literal and every std::sto* call sits inside a try "
                 "block (whose handler exits with a diagnostic) or behind a dominating format check (C16.no-throw); regex from a "
                 "sanitised string is a reviewed exception")
    n = 0
    for f in db.funcs.values():
        if f.file == "src/uncrustify_emscripten.cpp":
            continue
        for x in f.nodes.values():
            c = x.get("c") or ""
            is_re = x["k"] in ("ctor", "call") and "basic_regex" in c and (x["k"] == "ctor" or c.endswith("::operator=") or c.endswith("::assign"))
            if not is_re or not x.get("a"):
                continue
            a = f.nodes.get(x["a"][0])
            if a is None:
                continue
            # literal pattern, or copy/move of another regex object
            def is_regex_value(j, d=0):
                m = f.nodes.get(j)
                if m is None or d > 4:
                    return False
                if m["k"] == "str":
                    return True
                if "regex" in (m.get("t") or ""):
                    return True
                if m["k"] in ("ctor", "call") and "basic_regex" in (m.get("c") or ""):
                    return True
                if m["k"] == "cast":
                    return "regex" in (m.get("t") or "") or is_regex_value(m["a"][0], d + 1)
                return False
            if is_regex_value(x["a"][0]):
                continue
            n += 1
            r.seen()
            inst = "%s/regex(%s)" % (f.qn, expr_str(f, x["a"][0])[:40])
            r.check(bool(x.get("try")) or _callers_protected(db, f), inst, db.loc(f, x), "std::regex is compiled from run-time text `%s` outside any try block: a malformed "
                    "expression throws std::regex_error, which nothing catches (SIGABRT)" % expr_str(f, x["a"][0])[:60])
    r.require(n >= 4, "only %d regex constructions from non-literals found (expected >= 4)" % n)
    # the handlers diagnose: every function with a try block logs at LERR/LWARN
    for f in db.funcs.values():
        if any(x.get("try") for x in f.nodes.values()):
            r.check(any(_is_diag(f, x) for x in f.all_nodes()), "%s/handler-diagnoses" % f.qn, "%s:%d" % (f.file, f.l0), "%s has a try block but logs no diagnostic" % f.qn)
    r.floor(4)


def _callers_protected(db, f, depth=0):
    """every call site of f lies inside a try block (or in a function all of whose call sites do)"""
    sites = db.callers_of_key(f.key)
    if not sites or depth > 3:
        return False
    for g, n in sites:
        if n.get("try"):
            continue
        if not _callers_protected(db, g, depth + 1):
            return False
    return True


DIAG_CALLS = ("fprintf", "usage_error", "uncrustify::OptionWarning::operator()", "perror", "usage", "fputs",
              "uncrustify::GenericOption::read")        # a failing read() has warned (C16.fail-warns)


def _is_diag(f, n):
    if n["k"] != "call":
        return False
    c = n.get("c")
    if c == "log_sev_on":
        return bool(enum_consts(f, n["i"]) & {"LERR", "LWARN"})
    if c == "log_fmt":
        return bool(enum_consts(f, n["i"]) & {"LERR", "LWARN"})
    if c in ("fprintf", "fputs"):
        return "stderr" in expr_str(f, n["i"]) or "stdout" in expr_str(f, n["i"])
    return c in DIAG_CALLS


def _num_rel(f, c):
    """(expr text, op, int) for a comparison of an expression with an integer literal"""
    n = f.nodes.get(c)
    while n is not None and n["k"] == "cast":
        n = f.nodes.get(n["a"][0])
    if n is None or n["k"] != "bin" or n.get("op") not in ("<", "<=", ">", ">=", "==", "!="):
        return None
    a, b = f.nodes.get(n["a"][0]), f.nodes.get(n["a"][1])
    while b is not None and b["k"] == "cast":
        b = f.nodes.get(b["a"][0])
    if b is None or b["k"] != "int":
        return None
    return (expr_str(f, n["a"][0]), n["op"], b["v"])


def _num_facts(f, x):
    out = []
    for cn, pol in f.guard_conds(f.nblock[x["i"]]):
        if cn is None or not isinstance(pol, bool):
            continue
        rel = _num_rel(f, cn)
        if rel is None:
            continue
        e, op, v = rel
        if not pol:
            op = {"<": ">=", "<=": ">", ">": "<=", ">=": "<", "==": "!=", "!=": "=="}[op]
        out.append((e, op, v))
    return out


def _rel_consistent(op1, v1, op2, v2):
    """can `E op1 v1` and `E op2 v2` hold together (integers)?"""
    def sat(op, v, x):
        return {"<": x < v, "<=": x <= v, ">": x > v, ">=": x >= v, "==": x == v, "!=": x != v}[op]
    for x in (v1 - 1, v1, v1 + 1, v2 - 1, v2, v2 + 1):
        if sat(op1, v1, x) and sat(op2, v2, x):
            return True
    return False


DOCUMENTED = {0: "EX_OK", 1: "EXIT_FAILURE", 64: "EX_USAGE", 65: "EX_DATAERR", 66: "EX_NOINPUT", 67: "EX_NOUSER", 68: "EX_NOHOST", 69: "EX_UNAVAILABLE",
              70: "EX_SOFTWARE", 71: "EX_OSERR", 72: "EX_OSFILE", 73: "EX_CANTCREAT", 74: "EX_IOERR", 75: "EX_TEMPFAIL", 76: "EX_PROTOCOL", 77: "EX_NOPERM", 78: "EX_CONFIG"}


def rule_exit_discipline(ctx):
    db = ctx.db
    r = ctx.rule("exit-discipline", "every exit(v) and every return in main has a documented status constant; every non-zero exit is preceded "
                 "on every path from its function's entry by a diagnostic (LOG_FMT at LERR/LWARN, fprintf to stderr/stdout, usage_error, OptionWarning)")
    n = 0
    counter = {}
    for f in db.funcs.values():
        if f.file == "src/uncrustify_emscripten.cpp":
            continue
        for x in f.all_nodes():
            if not is_exit_call(x) and not (f.qn == "main" and x["k"] == "ret"):
                continue
            if f.qn == "main" and x["k"] == "ret":
                a = f.nodes.get(x["a"][0]) if x.get("a") else None
                st = a["v"] if a is not None and a["k"] == "int" else (expr_str(f, x["a"][0]) if a is not None else None)
            else:
                st = exit_status(f, x)
            n += 1
            r.seen()
            key = "%s/exit(%s)" % (f.qn, st)
            counter[key] = counter.get(key, 0) + 1
            inst = key if counter[key] == 1 else "%s#%d" % (key, counter[key])
            if isinstance(st, int):
                if not r.check(st in DOCUMENTED, inst + "/documented", db.loc(f, x), "exit status %s is not one of the documented statuses" % st):
                    continue
            else:
                # a variable: main's `return(error)` from redir_stdout: accept named locals holding an EX_ code
                r.ok(inst + "/symbolic", db.loc(f, x))
                continue
            if st == 0:
                continue
            if f.qn == "main" and x["k"] == "ret" and ("cpd.do_check", True) in [(expr_str(f, cn), pol) for cn, pol in f.guard_conds(f.nblock[x["i"]]) if cn is not None]:
                continue        # --check verdict: FAIL lines were printed per file (C12.status)
            # paths that contradict a fact which holds at the exit are infeasible: `if (opt() > 0) { log } if (opt() == 2) exit`
            tfacts = _num_facts(f, x)

            def edge_ok(b, i, f=f, tfacts=tfacts):
                t = f.blocks[b].get("term")
                c = t.get("lc", t.get("c")) if t else None
                if c is None or len(f.succ[b]) != 2:
                    return True
                rel = _num_rel(f, c)
                if rel is None:
                    return True
                e, op, v = rel
                if i == 1:
                    op = {"<": ">=", "<=": ">", ">": "<=", ">=": "<", "==": "!=", "!=": "=="}[op]
                for (e2, op2, v2) in tfacts:
                    if e2 == e and not _rel_consistent(op, v, op2, v2):
                        return False
                return True
            w = f.paths_avoiding(f.entry, lambda y: y["i"] == x["i"], lambda y: _is_diag(f, y), start_is_node=False, edge_ok=edge_ok)
            r.check(w is None, inst, db.loc(f, x), "exit(%s) in %s can be reached without any diagnostic on stderr: uncrustify refuses the input silently"
                    % (DOCUMENTED.get(st, st), f.qn), path=["%s:%d" % (f.file, l) for l in f.path_lines(w[0])][-6:] if w else None)
            # a diagnostic written through the logger only reaches stderr if the message ends in a newline (log_end()) or
            # log_flush(true) runs before exit(): exit() does not flush the log buffer
            if w is None:
                logs = [y for y in f.all_nodes() if y["k"] == "call" and y.get("c") == "log_fmt" and len(y.get("a", ())) >= 2
                        and (enum_consts(f, y["i"]) & {"LERR", "LWARN"})]
                for L in logs:
                    fmt = f.nodes.get(L["a"][1])
                    while fmt is not None and fmt["k"] == "cast":
                        fmt = f.nodes.get(fmt["a"][0])
                    if fmt is None or fmt["k"] != "str" or fmt["v"].endswith("\n"):
                        continue
                    # an unterminated message: is it the last thing logged on some path to this exit?
                    wl = f.paths_avoiding(L["i"], lambda y: y["i"] == x["i"],
                                          lambda y: y["k"] == "call" and y["i"] != L["i"] and ((y.get("c") or "").startswith("log_")
                                                                                               or (db.funcs.get(y.get("cm")) is not None and db.funcs[y["cm"]].file == "src/logger.cpp")))
                    r.check(wl is None, inst + "/diagnostic-is-flushed", db.loc(f, L),
                            "the message `%s` is the last one logged before exit(%s) and does not end in a newline, and no log_flush(true) follows: "
                            "the logger keeps it in its buffer (log_end) and exit() discards it - the input is refused silently"
                            % (fmt["v"][:50], DOCUMENTED.get(st, st)))
    r.require(n >= 100, "only %d exit sites found" % n)
    r.floor(100)


def rule_no_error_after_output(ctx):
    db = ctx.db
    r = ctx.rule("no-error-after-output", "no non-zero exit is reachable inside output_text() or between the output_text() call and the end "
                 "of uncrustify_file()")
    u = db.fn("uncrustify_file", file=UNC)
    o = db.fn("output_text", file="src/output.cpp")
    outs = db.calls_in(u, "output_text")
    r.require(outs, "uncrustify_file does not call output_text")

    def nonzero_exit(f, n):
        return is_exit_call(n) and exit_status(f, n) not in (0,)
    # (a) after output_text in uncrustify_file
    for oc in outs:
        r.seen()
        cs = [(expr_str(u, cn), pol) for cn, pol in u.guard_conds(u.nblock[oc["i"]]) if cn is not None]
        if ("cpd.html_file == nullptr", False) in cs:
            continue        # tracking output: writes the html file, then exit(EX_OK)
        w = u.paths_avoiding(oc["i"], lambda n: nonzero_exit(u, n), lambda n: False)
        r.check(w is None, "uncrustify_file/exit-after-output", db.loc(u, w[1]) if w else db.loc(u, oc),
                "after output_text() has written the formatted source, uncrustify_file can still exit with an error status (%s)" %
                (expr_str(u, w[1]["i"]) if w else ""), path=["%s:%d" % (u.file, l) for l in u.path_lines(w[0])][-6:] if w else None)
        # ... nor through callees after it
        reach_after = set()
        seen = set()
        work = [(u.nblock[oc["i"]], u.npos[oc["i"]] + 1)]
        while work:
            b, p = work.pop()
            if (b, p > 0) in seen:
                continue
            seen.add((b, p > 0))
            for n in u.blocks[b]["n"][p:]:
                if n["k"] == "call":
                    reach_after.add(n["i"])
            for s in u.succ[b]:
                if s >= 0:
                    work.append((s, 0))
        from ..globalstate import GlobalState
        from .c11 import gstate
        gs = gstate(db)
        callees = set()
        for i in reach_after:
            n = u.nodes[i]
            for t in gs.call_targets(u, n):
                callees.add(t)
        R = db.reachable_from([db.funcs[k] for k in callees if k in db.funcs])
        for k in sorted(R):
            g = db.funcs[k]
            for n in g.all_nodes():
                if nonzero_exit(g, n):
                    r.seen()
                    r.fail("after-output/%s/exit(%s)" % (g.qn, exit_status(g, n)), db.loc(g, n),
                           "%s, reachable from uncrustify_file after output_text(), exits with status %s" % (g.qn, exit_status(g, n)))
    # (b) inside output_text and everything it calls
    R = db.reachable_from([o])
    cnt = {}
    for k in sorted(R):
        g = db.funcs[k]
        for n in g.all_nodes():
            if nonzero_exit(g, n):
                r.seen()
                key = "during-output/%s/exit(%s)" % (g.qn, exit_status(g, n))
                cnt[key] = cnt.get(key, 0) + 1
                r.fail(key if cnt[key] == 1 else "%s#%d" % (key, cnt[key]), db.loc(g, n),
                       "%s runs while output_text() is writing the formatted source and can exit with status %s: part of the source "
                       "is already on the output" % (g.qn, exit_status(g, n)))
    r.ok("scan", None, "%d functions reachable from output_text scanned" % len(R))
    # (c) nothing reaches the output sink before output_text(): the byte writers (write_bom, write_char, write_string) are called
    # only from the output module, and no function of that module other than output_text()'s callees runs earlier
    for q in ("write_bom", "write_char", "write_string"):
        for f, c in db.callers_of(q):
            if f.file == "src/uncrustify_emscripten.cpp":
                continue
            r.seen()
            r.check(f.file in ("src/output.cpp", "src/unicode.cpp"), "%s<-%s" % (q, f.qn.split("::")[-1]), db.loc(f, c),
                    "%s() is called from %s (%s), outside the output module: bytes (a BOM) reach the output before the passes that can still "
                    "refuse the source have run" % (q, f.qn, f.file))
    r.floor(1)


def rule_at_index_no_wrap(ctx):
    """container.at(i) throws std::out_of_range for a bad index and nothing in uncrustify catches it: the run ends in SIGABRT
    without a diagnostic.  An index computed by an unsigned subtraction that can wrap is such an index"""
    from ..bounds import Bounds
    db = ctx.db
    r = ctx.rule("at-index-no-wrap", "for every .at(i) on a container that is not chunk text (ParsingFrame, std::vector, std::deque, std::map) "
                 "no unsigned subtraction inside i - followed through single-definition locals - can wrap: interval facts (uv/bounds.py) give "
                 "lb(minuend) >= ub(subtrahend), or the call sits in a try block")
    n_at = 0
    for f in sorted(db.funcs.values(), key=lambda g: (g.file, g.l0)):
        if not f.file.startswith("src/") or f.file == "src/uncrustify_emscripten.cpp":
            continue
        seen_keys = {}
        for n in f.all_nodes():
            if n["k"] != "call" or not (n.get("c") or "").endswith("::at") or not n.get("a") or "UncText" in n["c"] or "basic_string" in n["c"]:
                continue
            n_at += 1
            r.seen()
            if n.get("try"):
                continue
            B = Bounds(db, f, n["i"])
            B.interval(n["a"][0])
            bad = [(i, a, b) for i, proved, a, b in B.underflow if not proved]
            for i, a, b in bad:
                key = "%s/%s/%s" % (f.qn.split("::")[-1], expr_str(f, n["i"])[:40], expr_str(f, i))
                if key in seen_keys:
                    continue
                seen_keys[key] = 1
                r.fail(key, db.loc(f, n), "the index of `%s` contains `%s`, which is unsigned and can wrap (minuend %s, subtrahend %s): .at() then "
                       "throws std::out_of_range and the run aborts" % (expr_str(f, n["i"])[:60], expr_str(f, i), a, b))
            if not bad:
                r.ok("%s/%s" % (f.qn.split("::")[-1], expr_str(f, n["i"])[:40]), db.loc(f, n))
    r.require(n_at >= 80, "only %d .at() calls on containers found" % n_at)
    r.floor(80)


def rule_punctuator_table_in_bounds(ctx):
    """find_punctuator() returns the `tag` pointers of the generated lookup table (punctuator_table.h, made from symbols_table.h
    by scripts/make_punctuator_table.py) and parse_next() does strlen(punc->tag): an entry that points behind its symbols array
    is garbage (`??/` in C++ crashed that way: a commented-out row behind the closing brace of symbols3[] was still counted)"""
    db = ctx.db
    r = ctx.rule("punctuator-table-in-bounds", "every `&symbolsN[k]` in the generated punc_table[] has k < number of rows of symbolsN; the row's "
                 "character is a character of that symbol and its next_idx stays inside the table")
    sizes = {}
    rows = {}
    for g in db.globals:
        if re.match(r"^symbols\d$", g["qn"]) and (g.get("init") or {}).get("k") == "init":
            sizes[g["qn"]] = len(g["init"]["a"])
            rows[g["qn"]] = [(x.get("a") or [{}])[0].get("v") for x in g["init"]["a"]]
    pt = [g for g in db.globals if g["qn"] == "punc_table" and (g.get("init") or {}).get("k") == "init"]
    r.require(len(sizes) >= 6 and len(pt) == 1, "symbols tables / punc_table not extracted")
    ents = pt[0]["init"]["a"]
    n_ptr = 0
    for idx, e in enumerate(ents):
        a = e.get("a") or []
        if len(a) < 4:
            continue
        if a[2].get("k") == "int":
            r.seen()
            if not (0 <= a[2]["v"] < len(ents)):                # next_idx: index of the first entry of the next level
                r.fail("punc_table[%d]/next_idx" % idx, "src/symbols_table.h:1", "next_idx %d leaves the table of %d entries" % (a[2]["v"], len(ents)))
        p = a[3]
        sub = None
        for x in [p] + (p.get("a") or []):
            if x.get("k2") == "ArraySubscriptExpr":
                sub = x
        if sub is None:
            continue
        ref, k = sub["a"][0], sub["a"][1]
        n_ptr += 1
        name = ref.get("qn")
        ok = name in sizes and k.get("k") == "int" and 0 <= k["v"] < sizes[name]
        r.check(ok, "punc_table[%d]/&%s[%s]" % (idx, name, k.get("v")), "src/symbols_table.h:1",
                "entry %d of the generated punctuator table points to %s[%s], but %s has %s rows: find_punctuator() returns a pointer behind the "
                "array and parse_next() reads tag/type/lang_flags from whatever follows" % (idx, name, k.get("v"), name, sizes.get(name)))
        if ok and a[0].get("k") == "int":
            sym = rows[name][k["v"]] or ""
            r.check(chr(a[0]["v"]) in sym, "punc_table[%d]/char-of-symbol" % idx, "src/symbols_table.h:1", "entry %d is for %r but points to the symbol %r" % (idx, chr(a[0]["v"]), sym))
    r.require(n_ptr >= 80, "only %d tag pointers found in punc_table" % n_ptr)
    r.floor(150)


def rule_array_store_in_bounds(ctx):
    """the same obligation as bounded-copy for the fixed-size arrays that do not hold characters (token stacks, chunk lists)"""
    from ..bounds import Bounds
    db = ctx.db
    r = ctx.rule("array-store-in-bounds", "every subscript store a[i] = .. into a fixed-size array of non-character elements has an index "
                 "whose upper bound (interval facts: literals, dominating comparisons, loop-exit facts) is below the array size")
    n_st = 0
    for f in sorted(db.funcs.values(), key=lambda g: (g.file, g.l0)):
        if not f.file.startswith("src/") or f.file == "src/uncrustify_emscripten.cpp":
            continue
        for n in f.all_nodes():
            if n["k"] != "asg" or (f.nodes.get(n["a"][0]) or {}).get("k") != "idx":
                continue
            ix = f.nodes[n["a"][0]]
            base = f.nodes.get(ix["a"][0])
            while base is not None and base["k"] == "cast":
                base = f.nodes.get(base["a"][0])
            if base is None or base["k"] not in ("ref", "mem"):
                continue
            m = re.match(r"^(?:const )?(.+?)\s*\[(\d+)\]$", base.get("t") or "")
            if not m or m.group(1) in ("char", "unsigned char", "UINT8", "signed char"):
                continue
            n_st += 1
            r.seen()
            N = int(m.group(2))
            B = Bounds(db, f, n["i"])
            iv = B.interval(ix["a"][1])
            wraps = [expr_str(f, i) for i, p, a, b in B.underflow if not p]
            r.check(iv[1] is not None and iv[1] < N and not wraps, "%s/%s" % (f.qn.split("::")[-1], expr_str(f, n["a"][0])[:40]), db.loc(f, n),
                    "the index of the store `%s` into `%s` (%d elements) is bounded by %s%s: deep nesting in the input writes behind the array"
                    % (expr_str(f, n["i"])[:60], expr_str(f, base["i"]), N, "nothing" if iv[1] is None else iv[1], (", and `%s` can wrap" % wraps[0]) if wraps else ""))
    r.require(n_st >= 15, "only %d subscript stores into non-character arrays found" % n_st)
    r.floor(15)


def rule_width_no_wrap(ctx):
    """uncrustify_file() repeats align/indent/do_code_width() `while (old_changes != cpd.changes)` with no bound of its own
    (debug_max_number_of_loops is off by default): the pass must stop asking for a split once nothing is too wide.  A column
    computed by an unsigned subtraction that wraps is `past the width` on every round, split_line() counts a change every time
    and the loop never ends"""
    from ..bounds import Bounds
    from ..flow import ReachingDefs, var_id
    db = ctx.db
    r = ctx.rule("width-no-wrap", "in the code_width pass (src/width.cpp) no unsigned subtraction whose result is ordered against another value "
                 "(<, >, <=, >=; directly or through a local) can wrap: interval facts (uv/bounds.py) give lb(minuend) >= ub(subtrahend)")
    loop = db.fn("uncrustify_file", file=UNC)
    r.require(len(db.calls_in(loop, "do_code_width")) >= 1, "uncrustify_file no longer calls do_code_width()")
    n_sub = 0
    for f in sorted(db.funcs.values(), key=lambda g: (g.file, g.l0)):
        if f.file != "src/width.cpp":
            continue
        rd = None
        ordered = [c for c in f.all_nodes() if c["k"] == "bin" and c["op"] in ("<", ">", "<=", ">=")]
        for n in f.all_nodes():
            if n["k"] != "bin" or n["op"] != "-":
                continue
            B = Bounds(db, f, n["i"])
            B.interval(n["i"])
            mine = [u for u in B.underflow if u[0] == n["i"]]
            if not mine:
                continue                                   # signed arithmetic
            # is the value ordered against something?  (operand of an ordering comparison, or stored into a local that is)
            users = set()
            stack, seen = [n["i"]], set()
            while stack:
                x = stack.pop()
                if x in seen:
                    continue
                seen.add(x)
                for p in f.parents().get(x, ()):
                    pn = f.nodes[p]
                    if pn["k"] == "bin" and pn["op"] in ("<", ">", "<=", ">="):
                        users.add(p)
                    elif pn["k"] in ("cast", "cond") or (pn["k"] == "bin" and pn["op"] in ("+", "-")):
                        stack.append(p)
                    elif pn["k"] == "decl":
                        for v in pn["vars"]:
                            if v.get("init") in seen or v.get("init") == x:
                                for c in ordered:
                                    for side in c["a"]:
                                        sn = f.nodes.get(side)
                                        while sn is not None and sn["k"] == "cast":
                                            sn = f.nodes.get(sn["a"][0])
                                        if sn is not None and sn["k"] == "ref" and sn.get("n") == v["n"]:
                                            users.add(c["i"])
            if not users:
                continue
            n_sub += 1
            r.seen()
            r.check(mine[0][1], "%s/%s" % (f.qn.split("::")[-1], expr_str(f, n["i"])), db.loc(f, n),
                    "`%s` is unsigned and nothing bounds the minuend from below (interval %s minus %s): for an empty chunk in column 0 it wraps "
                    "to SIZE_MAX and `%s` holds on every round of the code_width loop" % (expr_str(f, n["i"]), mine[0][2], mine[0][3],
                                                                                       expr_str(f, sorted(users)[0])))
    r.require(n_sub >= 1, "no ordered unsigned subtraction found in src/width.cpp (is_past_width changed shape)")
    r.floor(1)


RULES = [rule_sentinel_divergence, rule_eof_divergence, rule_null_links_immutable, rule_sentinel_not_freed, rule_no_throw, rule_text_index, rule_bounded_copy, rule_exit_discipline, rule_no_error_after_output, rule_width_no_wrap, rule_at_index_no_wrap, rule_punctuator_table_in_bounds, rule_array_store_in_bounds]
