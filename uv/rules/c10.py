"""C10 Output depends only on (bytes, language, configuration, file name).

Decided: (funnel) every delivery mode reaches output_text through the same uncrustify_file/uncrustify_start chain;
(observers-pure) nothing that is executed only because logging / -p / --dump-steps / tracking is on - including
every argument of every LOG_FMT - writes formatter state; (no-ambient-input) environment, locale, clock and random
sources are read only at the reviewed sites; (no-address-dependence) no relational comparison of pointers and no
iteration over pointer-keyed containers.
Not decided: absence of uninitialised reads (needs a value analysis).
"""
import re

from ..facts import expr_str, walk, in_macro, global_path, callee_names
from .c11 import gstate
from .common_io import UNC

# state that only observers read (logger buffer, dump/tracking numbering, debug ids)
OBSERVER_LOCS = {"g_log", "number", "file_num", "seq_ref_no", "line_number", "char_number", "numbering_status", "lang_liste", "eol",
                 "cpd.phase_name", "cpd.dumped_file", "dumpFileName", "buf", "dump_file_name", "buffer"}
# Chunk mutators that touch only the tracking annotation (html tracking output), never layout
TRACKING_METHODS = ("Chunk::TrackingData", "Chunk::SetTrackingData")


def impure_summary(db):
    """function key -> reason string if the function (transitively) writes formatter state"""
    gs = gstate(db)
    direct = {}
    for f in db.funcs.values():
        why = None
        for bid, lst in gs.events.get(f.key, {}).items():
            for (pos, kind, loc, n) in lst:
                if kind in ("W", "I") and loc not in OBSERVER_LOCS and not (loc or "").startswith("log_"):
                    why = "writes global %s at %s:%d" % (loc, f.file, n["l"])
                    break
            if why:
                break
        if not why:
            for n in f.nodes.values():
                if n["k"] == "call" and "o" in n and not n.get("cq"):
                    c = n.get("c") or ""
                    if (c.startswith("Chunk::") or c.startswith("ChunkListManager::") or c.startswith("ParsingFrame")) and c not in TRACKING_METHODS \
                            and c.split("::")[-1] not in ("GetNext", "GetPrev") and not c.split("::")[-1].startswith(("Get", "Is", "Test", "Search", "Skip", "Ppa")) \
                            and c.split("::")[-1] not in ("prev", "top", "at", "size", "empty", "begin", "end", "operator[]"):
                        # a non-const method invoked on something that is not a local object
                        o = f.nodes.get(n["o"])
                        if o is not None and o["k"] == "ref" and o.get("d") == "lv" and not o.get("t", "").endswith("*"):
                            continue
                        why = "calls %s at %s:%d" % (c, f.file, n["l"])
                        break
        if not why and f.d.get("cls") in ("Chunk", "ChunkListManager") and not f.d["sig"].endswith("const") and f.qn not in TRACKING_METHODS:
            from ..facts import root_decl
            for n in f.nodes.values():
                if n["k"] == "asg" or (n["k"] == "un" and n["op"] in ("++", "--")):
                    rd = root_decl(f, n["a"][0])
                    if rd is not None and rd[0] in ("this", "fd"):
                        why = "writes the chunk field `%s` at %s:%d" % (expr_str(f, n["a"][0]), f.file, n["l"])
                        break
                if n["k"] == "call" and (n.get("c") or "").endswith("::operator=") and "o" in n:
                    rd = root_decl(f, n["o"])
                    if rd is not None and rd[0] in ("this", "fd"):
                        why = "assigns the chunk field `%s` at %s:%d" % (expr_str(f, n["o"]), f.file, n["l"])
                        break
        if why and not f.qn.startswith(("log_", "dump_", "prot_")):
            direct[f.key] = why
        elif why:
            direct[f.key] = why
    impure = dict(direct)
    if db._callers is None:
        db._build_cg()
    changed = True
    while changed:
        changed = False
        for f in db.funcs.values():
            if f.key in impure:
                continue
            for t in db._callees.get(f.key, ()):
                if t in impure:
                    impure[f.key] = "calls %s which %s" % (db.funcs[t].qn, impure[t][:160])
                    changed = True
                    break
    return impure


def rule_funnel(ctx):
    db = ctx.db
    r = ctx.rule("funnel", "among functions reachable from main: output_text <- uncrustify_file only; uncrustify_file <- main (stdin) and "
                 "do_source_file; do_source_file <- main, process_source_list; tokenize(source) <- uncrustify_start <- uncrustify_file, main(--detect)")
    m = db.fn("main", file=UNC)
    R = db.reachable_from([m])
    r.require(len(R) > 800, "only %d functions reachable from main" % len(R))
    allowed = {
        "output_text": {"uncrustify_file"},
        "uncrustify_file": {"main", "do_source_file"},
        "do_source_file": {"main", "process_source_list"},
        "process_source_list": {"main"},
        "uncrustify_start": {"uncrustify_file", "main"},
        "tokenize": {"uncrustify_start", "add_file_header", "add_file_footer", "add_func_header", "add_msg_header", "insert_comment_after"},
        "uncrustify_end": {"uncrustify_file", "do_source_file", "main"},
        "load_mem_file": {"do_source_file", "main", "load_header", "load_mem_file_config"},
        "read_stdin": {"main"},
    }
    for callee, ok in sorted(allowed.items()):
        sites = [(f, n) for f, n in db.callers_of(callee) if f.key in R]
        r.require(sites, "no call of %s reachable from main" % callee)
        for f, n in sites:
            r.seen()
            r.check(f.qn in ok, "%s<-%s" % (callee, f.qn), db.loc(f, n), "%s is called from %s (allowed: %s)" % (callee, f.qn, sorted(ok)))
    # every mode hands the same file_mem to uncrustify_file: first argument is the local `fm` filled by load_mem_file / read_stdin
    for f, n in db.callers_of("uncrustify_file"):
        if f.key not in R:
            continue
        r.check(expr_str(f, n["a"][0]) == "fm", "%s/uncrustify_file-gets-fm" % f.qn, db.loc(f, n), "uncrustify_file receives `%s`" % expr_str(f, n["a"][0]))
    # in main, the --detect use of uncrustify_start is followed by no output_text: it writes a configuration
    for f, n in db.callers_of("uncrustify_start"):
        if f.qn == "main":
            conds = [(expr_str(f, cn), pol) for cn, pol in f.guard_conds(f.nblock[n["i"]]) if cn is not None]
            r.check(("detect", True) in conds, "main/uncrustify_start-only-for-detect", db.loc(f, n), "main calls uncrustify_start outside --detect")
    r.floor(14)


def rule_observers_pure(ctx):
    db = ctx.db
    r = ctx.rule("observers-pure", "no node executed only under log_sev_on(...) (every LOG_FMT argument included) and no function of the "
                 "logging/dump/parsed-output entry points writes formatter state (globals other than logger/dump bookkeeping, "
                 "chunks, options); LOG_FMT's `if` never has an else")
    impure = impure_summary(db)
    m = db.fn("main", file=UNC)
    R = db.reachable_from([m])
    n_guarded = 0
    n_calls = 0
    for k in sorted(R):
        f = db.funcs[k]
        # blocks that execute only when a log severity is on
        logblocks = set()
        for b in f.blocks:
            if not f.blocks[b]["n"]:
                continue
        cache = {}
        for b, blk in f.blocks.items():
            ns = blk["n"]
            if not ns:
                continue
            has_macro = any(in_macro(n, "LOG_FMT") or in_macro(n, "LOG_CHUNK") for n in ns)
            if not has_macro and "log_sev_on" not in "".join((n.get("c") or "") for n in ns if n["k"] == "call"):
                # cheap pre-filter: only compute guards where logging is nearby
                conds = None
            conds = f.guard_conds(b, expand=True)
            if any(pol is True and cn is not None and f.nodes[cn]["k"] == "call" and f.nodes[cn].get("c") == "log_sev_on" for cn, pol in conds):
                logblocks.add(b)
        for b in logblocks:
            for n in f.blocks[b]["n"]:
                n_guarded += 1
                r.seen()
                k = n["k"]
                if k in ("asg",) or (k == "un" and n["op"] in ("++", "--")):
                    t = f.nodes.get(n["a"][0])
                    gp = global_path(f, n["a"][0])
                    if gp is not None and (gp.split(".")[0] in OBSERVER_LOCS or ".".join(gp.split(".")[:2]) in OBSERVER_LOCS):
                        continue
                    if gp is not None or (t is not None and t["k"] == "ref" and t.get("d") in ("lv", "pv") and f.nblock.get(t["i"]) is not None and _declared_outside(f, t, logblocks)):
                        r.fail("%s/store-under-logging" % f.qn, db.loc(f, n), "`%s` executes only when a log severity is enabled but changes state the formatter can read" % expr_str(f, n["i"]))
                if k == "call":
                    n_calls += 1
                    gsx = gstate(db)
                    for t in gsx.call_targets(f, n):
                        if t in impure and db.funcs[t].qn not in ("log_fmt", "log_str", "log_flush", "log_sev_on"):
                            r.fail("%s/impure-call-under-logging/%s" % (f.qn, db.funcs[t].qn), db.loc(f, n),
                                   "`%s` is evaluated only when logging is on, but %s %s" % (expr_str(f, n["i"])[:80], db.funcs[t].qn, impure[t][:200]))
                            break
                    else:
                        r.ok("%s/%s" % (f.qn, n.get("c")), None)
        # the macro's `if` has no else
        for b, blk in f.blocks.items():
            t = blk.get("term")
            if t and t["k"] == "IfStmt" and "LOG_FMT" in t.get("mac", ()) and t.get("else"):
                r.fail("%s/LOG_FMT-with-else" % f.qn, db.loc(f, t["l"]), "an `else` binds to the `if` hidden in LOG_FMT: the else-branch runs only when logging is off")
    r.note("nodes under log_sev_on: %d, calls among them: %d" % (n_guarded, n_calls))
    r.require(n_calls >= 5000, "only %d calls found under log_sev_on guards (expected >= 5000)" % n_calls)
    # observer entry points must be pure
    entry = []
    for f in db.funcs.values():
        if f.key not in R:
            continue
        if (f.file in ("src/logger.cpp", "src/log_rules.cpp", "src/logmask.cpp", "src/unc_tools.cpp", "src/pcf_flags.cpp", "src/align/log_al.cpp")
                or f.qn in ("output_parsed", "output_parsed_csv", "dump_step", "dump_out", "log_pcf_flags", "align_log_al")):
            entry.append(f)
    r.require(len(entry) >= 25, "only %d observer entry points found" % len(entry))
    for f in entry:
        r.seen()
        if f.qn in ("dump_in",):
            continue   # --dump-steps reader: deliberately rebuilds the chunk list from a dump (debug facility, excluded by the property)
        r.check(f.key not in impure, "observer/%s" % f.qn, "%s:%d" % (f.file, f.l0),
                "observer function %s %s" % (f.qn, impure.get(f.key, "")[:260]))
    r.floor(5000)


def _declared_outside(f, ref, logblocks):
    dl = ref.get("dl")
    for b in logblocks:
        for n in f.blocks[b]["n"]:
            if n["k"] == "decl" and any(v["n"] == ref["n"] and v.get("dl") == dl for v in n["vars"]):
                return False
    return True


def rule_no_ambient_input(ctx):
    db = ctx.db
    r = ctx.rule("no-ambient-input", "getenv <- unc_getenv <- main's config discovery only; time/localtime only for utime and the $(year) "
                 "comment keyword; no setlocale/rand/srand/random_device/clock/gettimeofday/getpid/getcwd anywhere")
    allowed = {
        "getenv": {"unc_getenv"}, "unc_getenv": {"main", "unc_homedir"}, "unc_homedir": {"main"},
        "time": {"do_source_file", "kw_fcn_year"}, "localtime": {"kw_fcn_year"},
    }
    for callee, ok in sorted(allowed.items()):
        for f, n in db.callers_of(callee):
            r.seen()
            r.check(f.qn in ok, "%s<-%s" % (callee, f.qn), db.loc(f, n), "%s() is read in %s" % (callee, f.qn))
    banned = ("setlocale", "rand", "srand", "random", "srandom", "drand48", "clock", "gettimeofday", "clock_gettime", "getpid", "getppid", "getcwd",
              "get_current_dir_name", "std::random_device::random_device", "std::chrono::_V2::system_clock::now", "std::chrono::_V2::steady_clock::now",
              "secure_getenv", "std::locale::global", "uname", "gethostname", "getuid", "tmpnam", "mkstemp", "strftime", "gmtime", "ctime")
    n = 0
    for f in db.funcs.values():
        for x in f.nodes.values():
            if x["k"] in ("call", "ctor"):
                n += 1
                if x.get("c") in banned:
                    r.fail("%s-in/%s" % (x["c"], f.qn), db.loc(f, x), "ambient input %s() used in %s" % (x["c"], f.qn))
    r.seen(n)
    # positive control: the matcher sees libc callees at all
    r.check(len(db.callers_of("getenv")) >= 1 and len(db.callers_of("time")) >= 2, "control/matcher-sees-libc-calls", None, "getenv/time call sites vanished")
    # the utime block is the only consumer of time() in do_source_file and does not feed the formatter
    d = db.fn("do_source_file", file=UNC)
    for x in db.calls_in(d, "time"):
        par = [d.nodes[p] for p in d.parents().get(x["i"], ())]
        r.check(any(p["k"] == "asg" and expr_str(d, p["a"][0]) == "fm.utb.actime" for p in par), "do_source_file/time-only-for-utime", db.loc(d, x),
                "time() result is used for something else than the utime() record")
    r.floor(6)


def rule_compare_every_byte_read(ctx):
    """--replace / --no-backup / -o onto the input keep the old file when file_content_matches() says the new text equals it:
    an `equal` for data that was read but not compared leaves the file unformatted while -f prints the formatted text"""
    db = ctx.db
    r = ctx.rule("compare-every-byte-read", "file_content_matches(): from every read() each path to the return passes memcmp() or the true edge of a "
                 "test that the length read is <= 0 (end of file / error): no block is read and then left uncompared")
    f = db.fn("file_content_matches", file=UNC)
    reads = [n for n in f.all_nodes() if n["k"] == "call" and n.get("c") == "read"]
    r.require(len(reads) >= 1, "file_content_matches no longer calls read()")
    cmps = set(n["i"] for n in f.all_nodes() if n["k"] == "call" and n.get("c") in ("memcmp", "std::memcmp"))
    r.require(cmps, "file_content_matches no longer calls memcmp()")
    from ..flow import ReachingDefs
    def up(i):
        ps = f.parents().get(i) or [None]
        return ps[0]
    lens = {}
    for rdn in reads:
        par = up(rdn["i"])
        while par is not None and f.nodes[par]["k"] == "cast":
            par = up(par)
        pn = f.nodes.get(par) if par is not None else None
        var = expr_str(f, pn["a"][0]) if pn is not None and pn["k"] == "asg" else None
        if var is None and pn is not None and pn["k"] == "decl":
            var = [v["n"] for v in pn["vars"] if v.get("init") is not None][:1]
            var = var[0] if var else None
        r.check(var is not None, "file_content_matches/%s/length-kept" % expr_str(f, rdn["i"])[:24], db.loc(f, rdn), "the result of read() is not stored")
        if var is not None:
            lens[rdn["i"]] = var
    eof = re.compile(r"^\(?(%s) (<=|<|==) 0\)?$" % "|".join(re.escape(v) for v in set(lens.values()))) if lens else None

    def edge_ok(b, ei):
        """false for the true edge of a test all of whose alternatives say that a length read is <= 0: the function's result
        is then taken with a file at its end (the sizes were compared up front)"""
        t = f.blocks[b].get("term")
        c = t.get("lc", t.get("c")) if t else None
        if c is None or len(f.succ[b]) != 2 or ei != 0:
            return True
        s = expr_str(f, c)
        if " && " in s:
            return True
        return not all(eof.match(x.strip()) for x in s.split(" || "))
    for rdn in reads:
        if rdn["i"] not in lens:
            continue
        r.seen()
        var = lens[rdn["i"]]
        w = f.paths_avoiding(rdn["i"], lambda n: n["k"] == "ret", lambda n: n["i"] in cmps, edge_ok=edge_ok)
        r.check(w is None, "file_content_matches/%s/compared-or-eof" % var, db.loc(f, rdn),
                "a block read into the buffer (`%s`) can reach the return without memcmp() and without a test `<length> <= 0`: a difference in "
                "it is not seen" % expr_str(f, rdn["i"]), path=["%s:%d" % (f.file, l) for l in f.path_lines(w[0])][-8:] if w else None)
    r.floor(2)


def rule_input_read_complete(ctx):
    """the bytes that are formatted are the bytes of the file / of stdin - all of them.  A short read is not the end of the
    input (pipes deliver data in pieces) and a read error is not either"""
    db = ctx.db
    r = ctx.rule("input-read-complete", "read_stdin(): the reading loop is left only through feof(stdin) / ferror(stdin), and a pending "
                 "ferror(stdin) makes the function fail; load_mem_file(): the file is read by one fread(buf, size, 1, f) whose result != 1 "
                 "ends the run, and the buffer is not resized after the read")
    f = db.fn("read_stdin", file=UNC)
    reads = [n for n in f.all_nodes() if n["k"] == "call" and n.get("c") in ("fread", "read", "fgets", "getc", "fgetc")]
    r.require(len(reads) >= 1, "read_stdin: no read call found")
    for rdn in reads:
        loops = [(h, body) for h, body, _ in f.loops() if f.nblock[rdn["i"]] in body]
        r.check(bool(loops), "read_stdin/%s-in-a-loop" % rdn["c"], db.loc(f, rdn), "stdin is read once, not until its end")
        if not loops:
            continue
        h, body = max(loops, key=lambda x: len(x[1]))
        bad = []
        for b in body:
            for i, s2 in enumerate(f.succ[b]):
                if s2 >= 0 and s2 not in body:
                    t = f.blocks[b].get("term")
                    c = expr_str(f, t.get("lc", t.get("c"))) if t and t.get("c") is not None else "(unconditional)"
                    if not re.match(r"^!?(feof|ferror)\(stdin\)$", c):
                        bad.append(c)
        r.seen()
        r.check(not bad, "read_stdin/loop-ends-only-at-eof-or-error", db.loc(f, rdn), "the loop that reads stdin can also be left under %s: a short read "
                "(a pipe that runs dry for a moment) is taken for the end of the input" % bad)
        cond_txt = " ".join(expr_str(f, f.blocks[b]["term"].get("lc", f.blocks[b]["term"].get("c"))) for b in body if f.blocks[b].get("term") and f.blocks[b]["term"].get("c") is not None)
        r.check("ferror(stdin)" in cond_txt, "read_stdin/loop-stops-on-error", db.loc(f, rdn), "a read error does not end the loop: fread() returns 0, feof() "
                "stays false and the loop never ends")
    fails = [n for n in f.all_nodes() if n["k"] == "ret" and n.get("a") and (f.nodes.get(n["a"][0]) or {}).get("k") == "bool" and not f.nodes[n["a"][0]]["v"]
             and ("ferror(stdin)", True) in [(expr_str(f, cn), pol) for cn, pol in f.guard_conds(f.nblock[n["i"]]) if cn is not None]]
    r.check(bool(fails), "read_stdin/error-fails", db.loc(f, f.l0), "a read error on stdin does not make read_stdin() fail: the prefix read so far is formatted")
    g = db.fn("load_mem_file", file=UNC)
    fr = [n for n in g.all_nodes() if n["k"] == "call" and n.get("c") in ("fread", "read")]
    r.require(len(fr) == 1, "load_mem_file: %d read calls" % len(fr))
    x = fr[0]
    args = [expr_str(g, a) for a in x.get("a", ())]
    r.check(x["c"] == "fread" and len(args) == 4 and args[1].replace("this->", "") in ("fm.raw.size()", "(size_t)my_stat.st_size", "my_stat.st_size") and args[2] == "1",
            "load_mem_file/one-item-of-the-whole-size", db.loc(g, x), "the file is not read as one item of its whole size: `%s` - a short count can then "
            "pass for success" % expr_str(g, x["i"])[:80])
    # its failure ends the run
    ok_fail = False
    for b, blk in g.blocks.items():
        t = blk.get("term")
        c = t.get("lc", t.get("c")) if t else None
        if c is not None and len(g.succ[b]) == 2 and "fread(" in expr_str(g, c) and expr_str(g, c).endswith("!= 1"):
            ok_fail = g.paths_avoiding(g.succ[b][0], lambda n: n["k"] == "ret", lambda n: n["k"] == "call" and n.get("c") == "exit", start_is_node=False) is None
    r.check(ok_fail, "load_mem_file/short-read-ends-the-run", db.loc(g, x), "fread(..) != 1 does not lead to exit()")
    late = [n for n in g.all_nodes() if n["k"] == "call" and (n.get("c") or "").endswith("::resize") and "raw" in expr_str(g, n.get("o")) and g.dominates(x["i"], n["i"])]
    r.check(not late, "load_mem_file/no-resize-after-read", db.loc(g, late[0] if late else x), "fm.raw is resized after the read: a prefix of the file is "
            "accepted as the file")
    r.floor(6)


def rule_no_address_dependence(ctx):
    db = ctx.db
    r = ctx.rule("no-address-dependence", "no <,>,<=,>= between pointer operands, no iteration over a container keyed by a pointer type, "
                 "no pointer formatted into output or hashed into an ordering")
    n_bin = 0
    pat = re.compile(r"(map|set|multimap|multiset)<[^,<>]*\*")
    for f in db.funcs.values():
        for x in f.nodes.values():
            if x["k"] == "bin":
                n_bin += 1
                if x.get("pp") and x["op"] in ("<", ">", "<=", ">="):
                    # comparing positions inside one buffer (char* cursors) is address-independent
                    a, b = f.nodes.get(x["a"][0]), f.nodes.get(x["a"][1])
                    ta = (a or {}).get("t", "")
                    if "char" in ta or "UINT8" in ta:
                        continue
                    # bound check of a cursor against an element of a named array (`it < &table[n]`): same object
                    if any(y is not None and y["k"] == "un" and y["op"] == "&" and f.nodes.get(y["a"][0], {}).get("k") == "idx" for y in (a, b)):
                        continue
                    r.fail("%s/pointer-order" % f.qn, db.loc(f, x), "relational comparison of pointers `%s`" % expr_str(f, x["i"]))
            if x["k"] == "call" and (x.get("c") or "").split("::")[-1] in ("begin", "cbegin", "end", "rbegin") and "o" in x:
                o = f.nodes.get(x["o"])
                if o is not None and pat.search(o.get("t", "") or ""):
                    r.fail("%s/iterates-pointer-keyed/%s" % (f.qn, o.get("n")), db.loc(f, x), "iteration over pointer-keyed container `%s` (%s): order depends on addresses" % (o.get("n"), o.get("t")))
            if x["k"] == "decl":
                for v in x["vars"]:
                    if v["n"].startswith("__range") and "init" in v:
                        o = f.nodes.get(v["init"])
                        if o is not None and pat.search(o.get("t", "") or ""):
                            r.fail("%s/range-for-pointer-keyed/%s" % (f.qn, o.get("n")), db.loc(f, x), "range-for over pointer-keyed container `%s`" % o.get("n"))
    r.seen(n_bin)
    # positive example: the matcher recognises a pointer comparison when there is one
    import os
    from .. import selfcheck
    okc = selfcheck.positive("pointer_order")
    r.check(okc, "control/positive-example-matches", None, "the positive example selftest/positive/pointer_order.cpp no longer matches the rule")
    # pointer-keyed containers that exist today must only be used through point queries
    found = set()
    for g in db.globals:
        if pat.search(g["t"]):
            found.add(g["qn"])
    r.note("pointer-keyed containers: %s" % sorted(found))
    r.require(n_bin > 5000, "only %d binary operators seen" % n_bin)
    r.ok("all-binary-operators", None, "%d binary operators, %d pointer-keyed containers" % (n_bin, len(found)))


def rule_delivery_independence(ctx):
    """A file delivered through a -F list or as one of several positional arguments must give the bytes it gives alone
    (-f): that is exactly the reset discipline of C11, so the same rule instance set is an obligation of C10 too.  The
    rule keeps its C11 identifier so that its reviewed exceptions (rules/exceptions.json) are shared."""
    from . import c11
    c11.rule_reset(ctx, rid="C11.reset")


RULES = [rule_funnel, rule_observers_pure, rule_no_ambient_input, rule_no_address_dependence, rule_delivery_independence, rule_compare_every_byte_read, rule_input_read_complete]
