"""C04 Code-modifying options change only the tokens they name (see DESIGN.md section 4)."""
import re
from ..facts import expr_str, walk
from . import common_effects

MOD = common_effects.FAMILIES


def rule_effects(ctx):
    common_effects.effects_rule(ctx, MOD, "every TEXT/CREATE/DELETE/MOVE effect site reachable from uncrustify_file() (tokenizer stage excluded) is dead when the "
                                "mod_/cmt_/sp_cmt_cpp_/string_replace_tab_chars/pp_ignore_define_body/disable_processing_nl_cont options have their default value (constant folding of the dominating option tests along every call chain), or acts "
                                "on a newline/blank chunk, or is a reviewed exception")


RULES = [rule_effects]


def _conds(f, n):
    return [(expr_str(f, cn), pol) for cn, pol in f.guard_conds(f.nblock[n["i"]]) if cn is not None]


BR = "src/braces.cpp"


def rule_pairing(ctx):
    db = ctx.db
    r = ctx.rule("pairing", "brace conversions/insertions/removals come in pairs under one path condition: the two calls sit in the same "
                 "basic block with different arguments (examine_brace, convert_vbrace_to_brace, mod_case_brace_add/remove), or run over "
                 "the `braces` vector that process_if_chain fills with (open, GetClosingParen(open)) pairs")
    pairs = (("examine_brace", ("convert_brace",)), ("examine_brace", ("Chunk::Delete",)), ("convert_vbrace_to_brace", ("convert_vbrace",)),
             ("mod_case_brace_add", ("Chunk::CopyAndAddAfter",)), ("mod_case_brace_remove", ("Chunk::Delete",)))
    for qn, callees in pairs:
        f = db.fn(qn, file=BR)
        calls = [n for n in f.all_nodes() if n["k"] == "call" and n.get("c") in callees]
        r.require(calls, "%s has no %s call" % (qn, callees))
        byblock = {}
        for n in calls:
            byblock.setdefault(f.nblock[n["i"]], []).append(n)
        for b, ns in byblock.items():
            r.seen()
            args = [expr_str(f, n["a"][0]) if n.get("a") else expr_str(f, n.get("o")) for n in ns]
            r.check(len(ns) == 2 and len(set(args)) == 2, "%s/%s-in-pairs" % (qn, callees[0].split("::")[-1]), db.loc(f, ns[0]),
                    "%s calls %s %d time(s) with %s under one path condition: an unbalanced brace edit" % (qn, callees[0], len(ns), args))
    # process_if_chain: the vector is filled pairwise
    p = db.fn("process_if_chain", file=BR)
    pushes = [n for n in p.all_nodes() if n["k"] == "call" and (n.get("c") or "").endswith("::push_back") and expr_str(p, n.get("o")) == "braces"]
    args = [expr_str(p, n["a"][0]) for n in pushes]
    r.check(sorted(args) == ["br_close", "pc"], "process_if_chain/vector-filled-pairwise", db.loc(p, p.l0), "braces vector receives %s" % args)
    bc = [v for n in p.all_nodes() if n["k"] in ("decl", "asg") for v in (n.get("vars") or [{}]) if (v.get("n") == "br_close")]
    defs = [expr_str(p, v["init"]) for v in bc if "init" in v]
    r.check(defs == ["pc->GetClosingParen(PREPROC)"], "process_if_chain/close-is-partner", db.loc(p, p.l0), "br_close is defined by %s" % defs)
    # a missing partner aborts before anything is pushed for this pair?  the null test on br_close precedes its push
    for n in pushes:
        if expr_str(p, n["a"][0]) == "br_close":
            r.check(("br_close->IsNullChunk()", False) in _conds(p, n), "process_if_chain/close-not-null", db.loc(p, n), "br_close pushed without null test")
    conv = [n for n in p.all_nodes() if n["k"] == "call" and n.get("c") in ("convert_brace", "convert_vbrace")]
    for n in conv:
        r.check(expr_str(p, n["a"][0]) == "brace" and any(c[0] == "itc != ite" and c[1] for c in _conds(p, n)), "process_if_chain/%s-over-vector" % n["c"], db.loc(p, n),
                "%s is not applied to every element of the braces vector" % n["c"])
    r.floor(8)


def rule_remove_precondition(ctx):
    db = ctx.db
    r = ctx.rule("remove-precondition", "real braces become virtual only after the body scan of examine_brace reached the matching close brace "
                 "with at least one statement, under a mod_full_brace_* remove setting; in an if-chain only when no member needs braces")
    f = db.fn("examine_brace", file=BR)
    r.names(f, "pc", "next", "bopen", "semi_count", "if_count")
    for n in [x for x in f.all_nodes() if x["k"] == "call" and x.get("c") in ("convert_brace", "Chunk::Delete")]:
        r.seen()
        cs = _conds(f, n)
        ok = ("pc->Is(CT_BRACE_CLOSE)", True) in cs and ("semi_count > 0", True) in cs and ("pc->IsNullChunk()", False) in cs
        r.check(ok, "examine_brace/%s(%s)" % (n["c"].split("::")[-1], expr_str(f, n["a"][0])), db.loc(f, n), "brace removal under %s" % cs)
    # dangling else: the token examined for `else` after the closing brace is a real token - every virtual brace close of the
    # enclosing brace-less statements has been stepped over (a loop: its exit fact `next->Is(CT_VBRACE_CLOSE)` false holds at the
    # test) - and an `else` there blocks the removal whenever the block contains an `if`
    else_tests = [(b, blk) for b, blk in f.blocks.items() if blk.get("term") and expr_str(f, blk["term"].get("lc", blk["term"].get("c"))) in ("next->Is(CT_ELSE)", "next->Is(CT_ELSEIF)")]
    r.check(len(else_tests) >= 2, "examine_brace/looks-for-else", db.loc(f, f.l0), "examine_brace no longer tests the token after the closing brace for else / else if")
    for b, blk in else_tests:
        cs = [(expr_str(f, cn), pol) for cn, pol in f.guard_conds(b) if cn is not None]
        what = expr_str(f, blk["term"].get("lc", blk["term"].get("c")))
        r.check(("next->Is(CT_VBRACE_CLOSE)", False) in cs, "examine_brace/else-test-on-real-token/%s" % what, db.loc(f, blk["term"]["l"]),
                "`%s` is evaluated on a token that may still be a virtual brace close (only a loop over CT_VBRACE_CLOSE establishes the "
                "fact): with two or more enclosing brace-less statements the `else` is not seen, the braces go and the else re-binds" % what)
        r.check(("if_count > 0", True) in cs, "examine_brace/else-test-when-body-has-if/%s" % what, db.loc(f, blk["term"]["l"]), "the else test is no longer made under if_count > 0: %s" % cs)
    bail = [n for n in f.all_nodes() if n["k"] == "ret" and any(c.startswith("if_count > 0 && next->Is(CT_ELSE)") and pol is True for c, pol in _conds(f, n))]
    r.check(len(bail) >= 1, "examine_brace/else-blocks-removal", db.loc(f, f.l0), "finding else after the block no longer returns before the removal")
    # the scan loop bails out on a second statement
    rets = [n for n in f.all_nodes() if n["k"] == "ret" and ("semi_count > 1", True) in _conds(f, n)]
    r.check(len(rets) >= 1, "examine_brace/bails-on-second-statement", db.loc(f, f.l0), "the scan no longer returns when semi_count > 1")
    for g, n in db.callers_of("examine_brace"):
        r.seen()
        cs = " ".join(c for c, pol in _conds(g, n) if pol)
        r.check("mod_full_brace_" in cs and "IARF_REMOVE" in cs, "examine_brace<-%s" % g.qn, db.loc(g, n), "examine_brace is called without a mod_full_brace_* == REMOVE test: %s" % cs[:200])
    p = db.fn("process_if_chain", file=BR)
    for n in [x for x in p.all_nodes() if x["k"] == "call" and x.get("c") == "convert_brace"]:
        cs = _conds(p, n)
        r.check(("must_have_braces", False) in cs, "process_if_chain/remove-only-if-none-needs-braces", db.loc(p, n), "if-chain brace removal under %s" % cs)
    cr = [n for n in p.all_nodes() if n["k"] == "call" and n.get("c") == "can_remove_braces"]
    r.check(len(cr) == 1, "process_if_chain/asks-can_remove_braces", db.loc(p, p.l0), "process_if_chain no longer consults can_remove_braces")
    # must_have_braces becomes true whenever can_remove_braces says no
    sets = [n for n in p.all_nodes() if n["k"] == "asg" and expr_str(p, n["a"][0]) == "must_have_braces" and expr_str(p, n["a"][1]) == "true"]
    r.check(any(any(pol is True and (c == "!tmp" or c.startswith("!tmp ||")) for c, pol in _conds(p, n)) or ("tmp", False) in _conds(p, n) for n in sets), "process_if_chain/no-means-keep", db.loc(p, p.l0),
            "a negative can_remove_braces() no longer forces must_have_braces")
    r.floor(7)


def rule_scan_agreement(ctx):
    """The two body scanners (examine_brace for single statements, can_remove_braces for if-chains) decide "one statement"
    by counting statement starts in semi_count.  A compound statement nested directly in the scanned block is one
    statement; both scanners must count it - sibling agreement.  (examine_brace did not: `if (a) { { b(); } c(); } else d();`
    lost its outer braces; repaired by a fix: commit.)"""
    import re
    db = ctx.db
    r = ctx.rule("scan-agreement", "both body scanners of braces.cpp increment semi_count for the statement starters ';', if, else if, for, do, "
                 "while, using and for a block nested directly in the scanned body (a CT_BRACE_OPEN/CT_BRACE_CLOSE test on a chunk of the "
                 "body, not on the level of the opening brace itself)")
    want = {"pc->IsSemicolon()", "pc->Is(CT_IF)", "pc->Is(CT_ELSEIF)", "pc->Is(CT_FOR)", "pc->Is(CT_DO)", "pc->Is(CT_WHILE)", "pc->Is(CT_USING_STMT)"}
    for qn in ("examine_brace", "can_remove_braces"):
        f = db.fn(qn, file=BR)
        incs = [n for n in f.all_nodes() if n["k"] == "un" and n.get("op") == "++" and expr_str(f, n["a"][0]) == "semi_count"]
        r.require(incs, "%s no longer counts statements in semi_count" % qn)
        leaves = set()
        nested = False
        for n in incs:
            r.seen()
            for c, pol in _conds(f, n):
                if pol is not True:
                    continue
                for d in c.split(" || "):
                    d = d.strip()
                    leaves.add(d)
                    if "CT_BRACE_OPEN" in d and ("GetParentType() == CT_NONE" in d):
                        nested = True
                if c == "pc->Is(CT_BRACE_CLOSE)" and ("pc->GetLevel() == level", True) in _conds(f, n):
                    nested = True
        missing = sorted(want - leaves)
        r.check(not missing, "%s/statement-starters" % qn, db.loc(f, incs[0]), "%s does not count %s as a statement start" % (qn, missing))
        r.check(nested, "%s/nested-block-is-a-statement" % qn, db.loc(f, incs[0]),
                "%s does not count a block nested directly in the scanned body as a statement: `{ { a(); } b(); }` is taken for one statement "
                "and loses its braces" % qn)
    r.floor(4)


def rule_swap_first_on_line(ctx):
    common_effects.swap_lines_rule(ctx)


def rule_sort_whole_lines(ctx):
    db = ctx.db
    r = ctx.rule("sort-whole-lines", "sorting.cpp moves chunks only with Chunk::SwapLines; its deletions and those of "
                 "remove_duplicate_include.cpp are confined to the line of a duplicate #include (strcmp-equal text)")
    n_mv = 0
    for f in db.funcs.values():
        if f.file not in ("src/sorting.cpp", "src/remove_duplicate_include.cpp"):
            continue
        for n in f.nodes.values():
            if n["k"] != "call":
                continue
            c = n.get("c") or ""
            if c in ("Chunk::MoveAfter", "Chunk::Swap", "Chunk::CopyAndAddBefore", "Chunk::CopyAndAddAfter"):
                r.fail("%s/%s" % (f.qn, c), db.loc(f, n), "%s uses %s: sorting must permute whole lines only" % (f.qn, c))
            if c == "Chunk::SwapLines":
                n_mv += 1
                r.ok("%s/SwapLines" % f.qn, db.loc(f, n))
            if c == "Chunk::Delete":
                r.seen()
                if f.qn == "remove_duplicate_include":
                    cs = _conds(f, n)
                    # an equality test between the text of this include and a remembered one, in any spelling
                    eq = any(pol is True and "next->Text()" in c and (re.match(r"^(std::)?strcmp\(.*\) == 0$", c) or re.match(r"^[^=!<>]+ == [^=]+$", c)) for c, pol in cs)
                    r.check(eq and ("pc->Is(CT_PP_INCLUDE)", True) in cs, "remove_duplicate_include/Delete(%s)" % expr_str(f, n["a"][0]),
                            db.loc(f, n), "deletes under %s" % cs)
                else:
                    r.check(f.qn == "delete_chunks_on_line_having_chunk", "%s/Delete" % f.qn, db.loc(f, n), "sorting.cpp deletes chunks in %s" % f.qn)
    r.require(n_mv >= 1, "no SwapLines call in sorting.cpp")
    # the line deleter is only used for duplicates: the call is controlled by a comparison that walks both directives to
    # the end of the line (a function with a loop that advances both of its chunk parameters with GetNext), not by a
    # comparison of one token
    from ..flow import ReachingDefs
    for g, n in db.callers_of("delete_chunks_on_line_having_chunk"):
        r.seen()
        rd = ReachingDefs(g, db)
        cmp_funcs = set()
        for cn, pol in g.guard_conds(g.nblock[n["i"]]):
            if cn is None or pol is not True:
                continue
            for x in walk(g, cn):
                if x["k"] == "call" and x.get("cm"):
                    for key in (x["cm"], "%s@%s" % (x["cm"], g.file)):        # internal linkage: keyed per file
                        if key in db.funcs:
                            cmp_funcs.add(key)
        whole = []
        for k in cmp_funcs:
            h = db.funcs[k]
            ps = [p["n"] for p in h.d.get("params", ()) if p["t"].replace("const ", "").strip() in ("Chunk *", "class Chunk *")]
            if len(ps) < 2:
                continue
            for hd, body, backs in h.loops():
                adv = set()
                for b in body:
                    for m in h.blocks[b]["n"]:
                        if m["k"] == "asg" and expr_str(h, m["a"][0]) in ps and re.match(r"^%s->GetNext\w*\(" % re.escape(expr_str(h, m["a"][0])), expr_str(h, m["a"][1])):
                            adv.add(expr_str(h, m["a"][0]))
                if len(adv) >= 2:
                    whole.append(h.qn)
        r.check(bool(whole), "delete_chunks_on_line_having_chunk<-%s" % g.qn, db.loc(g, n),
                "a whole line is deleted as a duplicate under a test that does not compare the two lines token by token to their ends "
                "(comparison functions in the guard: %s): lines that only share their first token are lost" % sorted(db.funcs[k].qn for k in cmp_funcs))
    # an entry is one physical line: sort_imports() registers the first chunk of an import/using/include when it reaches the
    # newline of that line, and do_the_sort() moves exactly that line.  The pending entry must not survive the newline.
    si = db.fn("sort_imports", file="src/sorting.cpp")
    r.names(si, "p_imp", "p_last", "pc")
    nlb = [b for b, blk in si.blocks.items() if blk.get("term") and expr_str(si, blk["term"].get("lc", blk["term"].get("c"))) == "pc->IsNewline()" and len(si.succ[b]) == 2]
    r.require(len(nlb) >= 1, "sort_imports: the newline arm was not found")
    steps = [n for n in si.all_nodes() if n["k"] == "asg" and expr_str(si, n["i"]) in ("pc = next",) or
             (n["k"] == "asg" and expr_str(si, n["i"]).startswith("pc = ") and "GetNext" in expr_str(si, n["i"]))]
    r.require(steps, "sort_imports: the step to the next chunk was not found")
    stepids = set(n["i"] for n in steps)
    for var in ("p_imp", "p_last"):
        r.seen()
        resets = set(n["i"] for n in si.all_nodes() if n["k"] == "asg" and expr_str(si, n["i"]) in ("%s = Chunk::NullChunkPtr" % var, "%s = NullChunkPtr" % var))
        w = si.paths_avoiding(si.succ[nlb[0]][0], lambda n: n["i"] in stepids or n["k"] == "ret", lambda n: n["i"] in resets or (n["k"] == "call" and n.get("c") == "exit"),
                              start_is_node=False)
        r.check(bool(resets) and w is None, "sort_imports/%s-reset-at-every-newline" % var, db.loc(si, si.blocks[nlb[0]]["term"]["l"]),
                "after a newline `%s` can still hold a chunk of the line that has just ended: the entry registered later is not the first chunk of "
                "its own line and SwapLines() tears the declaration apart" % var, path=["%s:%d" % (si.file, l) for l in si.path_lines(w[0])][-6:] if w else None)
    r.floor(8)


def rule_move_across_break(ctx):
    """with every mod_ option at its default no token changes its place either: the brace hoists of the newline passes stay on
    their side of a directive line (shared with C02)"""
    common_effects.move_across_break_rule(ctx)


def rule_oc_sort_keeps_words(ctx):
    """mod_sort_oc_properties rebuilds the attribute list from its buckets and deletes what is left before the `)`: a word
    that lands in no bucket disappears (an identifier token, not one of the documented kinds)"""
    db = ctx.db
    r = ctx.rule("oc-sort-keeps-words", "handle_oc_property_decl(): while a loop deletes every chunk it did not move, each pass of the classifying loop "
                 "that can see an attribute or a word (every edge but the false edge of next->IsWord()) reaches a push_back of it before "
                 "it steps to the following chunk")
    f = db.fn("handle_oc_property_decl", file="src/tokenizer/combine.cpp")
    r.names(f, "next", "curr_chunk")
    dels = [n for n in db.calls_in(f, "Chunk::Delete")]
    r.require(len(dels) >= 1, "handle_oc_property_decl: the loop that deletes the chunks left over was not found")
    restricted = all(any(pol is True and "CT_COMMA" in expr_str(f, cn) for cn, pol in f.guard_conds(f.nblock[d["i"]]) if cn is not None) for d in dels)
    pushes = [n for n in f.all_nodes() if n["k"] == "call" and (n.get("c") or "").endswith("::push_back") and n.get("a")
              and expr_str(f, n["a"][0]) in ("next", "chunkGroup")]
    r.require(len(pushes) >= 8, "handle_oc_property_decl: only %d bucket push_back calls found" % len(pushes))
    heads = []
    for h, body, _ in f.loops():
        t = f.blocks[h].get("term")
        # the classifying loop: its body holds the pushes, its condition looks for the closing parenthesis
        if sum(1 for n in pushes if f.nblock[n["i"]] in body) >= 8:
            heads.append((h, body))
    r.require(len(heads) >= 1, "handle_oc_property_decl: classifying loop not found")
    h, body = min(heads, key=lambda x: len(x[1]))
    pid = set(n["i"] for n in pushes)
    steps = set(n["i"] for n in f.all_nodes() if n["k"] == "asg" and expr_str(f, n["i"]).startswith("next = next->GetNext(") and f.nblock[n["i"]] in body)
    r.require(steps, "handle_oc_property_decl: the step `next = next->GetNext()` of the classifying loop was not found")
    wordtests = [b for b in body if f.blocks[b].get("term") and expr_str(f, f.blocks[b]["term"].get("lc", f.blocks[b]["term"].get("c"))) == "next->IsWord()"]

    def edge_ok(b, ei):
        return not (b in wordtests and ei == 1)
    entry = [x for x in f.succ[h] if x in body and x != h]
    for e in entry[:1]:
        r.seen()
        w = f.paths_avoiding(e, lambda n: n["i"] in steps, lambda n: n["i"] in pid, start_is_node=False, edge_ok=edge_ok)
        r.check(restricted or w is None, "handle_oc_property_decl/every-word-is-moved", db.loc(f, w[1] if w else f.l0),
                "a chunk of the attribute list that is an attribute or a word can pass the classifying loop without being put into a bucket; "
                "the loop at line %d then deletes it" % dels[-1]["l"], path=["%s:%d" % (f.file, l) for l in f.path_lines(w[0])][-8:] if w else None)
    r.floor(1)


RULES = [rule_effects, rule_pairing, rule_remove_precondition, rule_scan_agreement, rule_swap_first_on_line, rule_sort_whole_lines, rule_oc_sort_keeps_words, rule_move_across_break]
