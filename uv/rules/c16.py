"""C16 Bad configuration lines are diagnosed and have no other effect.

Decided: option values are stored only on the validated edges of the readers; every `return false` of a reader is
preceded by a warning; every non-empty path through process_option_line has an effect or a warning; no throwing
std conversion is applied to configuration text without a dominating format check; every unsigned option is bounded;
every unsigned option that can raise a newline count is compared with nl_max by too_big_for_nl_max(), which runs after
all option values are final and before any source is read.
Not decided: the wording of diagnostics; numeric overflow of strtol; include cycles.
"""
import re

from ..facts import expr_str, walk, callee_names, OPT_NS, options_read
from ..flow import ReachingDefs, var_id
from .common_io import UNC, is_exit_call, exit_status

OPT = "src/option.cpp"
WARNERS = ("uncrustify::GenericOption::warnUnexpectedValue", "uncrustify::GenericOption::warnIncompatibleReference", "uncrustify::OptionWarning::operator()")


def _readers(db):
    fs = []
    fs += db.fns("uncrustify::read_enum")
    fs += db.fns("uncrustify::read_number")
    fs += db.fns("uncrustify::Option<bool>::read")
    return fs


def _strip_casts(f, i):
    n = f.nodes.get(i)
    while n is not None and n["k"] == "cast" and n.get("a"):
        n = f.nodes.get(n["a"][0])
    return expr_str(f, n["i"]) if n is not None else "?"


def rule_store_after_validate(ctx):
    db = ctx.db
    r = ctx.rule("store-after-validate", "every store to m_val in read_number/read_enum/Option<bool>::read is controlled by a true edge of "
                 "validate()/convert_string() or the false edge of the type-mismatch test; convert_string passes m_val only to a function "
                 "that stores on success paths only (C15.enum-tables)")
    fs = _readers(db)
    r.require(len(fs) >= 6, "only %d reader instantiations found" % len(fs))
    n = 0
    for f in fs:
        for x in f.all_nodes():
            tgt = None
            if x["k"] == "asg":
                tgt = f.nodes.get(x["a"][0])
            if tgt is None or tgt["k"] != "mem" or tgt["n"] != "m_val":
                continue
            n += 1
            r.seen()
            conds = [(expr_str(f, cn), pol) for cn, pol in f.guard_conds(f.nblock[x["i"]]) if cn is not None]
            ok = any(("validate(" in c and pol is True and "&&" not in c and "||" not in c) for c, pol in conds) \
                or any((re.match(r"opt->type\(\) != ", c) and pol is False) for c, pol in conds)
            inst = "%s/%s" % (f.qn.replace("uncrustify::", "") + f.d["sig"].split(",")[-1].strip(")"), expr_str(f, x["a"][1])[:40])
            r.check(ok, inst, db.loc(f, x), "option value stored without a passed validate()/type test; controlling conditions: %s" % conds)
            # the value that is stored is the value that was validated (not, e.g., its negation)
            vargs = []
            for cn, pol in f.guard_conds(f.nblock[x["i"]]):
                c = f.nodes.get(cn) if cn is not None else None
                if c is not None and pol is False and c["k"] == "un" and c.get("op") == "!":
                    c, pol = f.nodes.get(c["a"][0]), True
                    while c is not None and c["k"] == "cast":
                        c = f.nodes.get(c["a"][0])
                if c is not None and pol is True and c["k"] == "call" and (c.get("c") or "").endswith("::validate") and c.get("a"):
                    vargs.append(_strip_casts(f, c["a"][0]))
            # ... and it reaches validate() in its full width: a parameter narrower than the parsed value wraps first
            for cn, pol in f.guard_conds(f.nblock[x["i"]]):
                c = f.nodes.get(cn) if cn is not None else None
                while c is not None and (c["k"] == "cast" or (c["k"] == "un" and c.get("op") == "!")):
                    c = f.nodes.get(c["a"][0])
                if c is not None and c["k"] == "call" and (c.get("c") or "").endswith("::validate") and c.get("a"):
                    a = f.nodes.get(c["a"][0])
                    inner = a
                    while inner is not None and inner["k"] == "cast":
                        inner = f.nodes.get(inner["a"][0])
                    at = ((inner or {}).get("t") or "").replace("const ", "")
                    g = db.funcs.get(c.get("cm"))
                    pt = (g.d["params"][0]["t"].replace("const ", "") if g is not None and g.d.get("params") else "?")
                    WIDTH = {"long": 64, "long long": 64, "unsigned long": 64, "size_t": 64, "int": 32, "unsigned int": 32, "unsigned": 32, "short": 16, "bool": 1}
                    if at in WIDTH:
                        r.check(WIDTH.get(pt, 0) >= WIDTH[at], inst + "/validated-in-full-width", db.loc(f, c),
                                "validate() takes `%s` but is handed the parsed `%s`: the value is truncated before the range check, so a number "
                                "far outside the range can wrap into it and is stored without a diagnostic" % (pt, at))
            if vargs:
                stored = _strip_casts(f, x["a"][1])
                # the validated value may reach the store through a local with a single definition
                sn = f.nodes.get(x["a"][1])
                while sn is not None and sn["k"] == "cast":
                    sn = f.nodes.get(sn["a"][0])
                if stored not in vargs and sn is not None and sn["k"] == "ref" and sn.get("d") == "lv":
                    from ..flow import ReachingDefs as _RD2, var_id as _vid2
                    _rd = _RD2(f, db)
                    ds = _rd.at(x["i"], _vid2(sn))
                    if len(ds) == 1 and _rd.rhs_of(ds[0]) is not None and _strip_casts(f, _rd.rhs_of(ds[0])) in vargs:
                        stored = _strip_casts(f, _rd.rhs_of(ds[0]))
                r.check(stored in vargs, inst + "/stores-what-was-validated", db.loc(f, x),
                        "validate() was applied to `%s` but `%s` is stored" % (", ".join(vargs), stored))
    r.floor(7)


def rule_fail_warns(ctx):
    db = ctx.db
    r = ctx.rule("fail-warns", "every path to `return false` in the readers and in BoundedOption::validate passes a warning "
                 "(warnUnexpectedValue / warnIncompatibleReference / OptionWarning), counting a failed validate() as one")
    fs = _readers(db) + [f for q in db.by_qn for f in db.by_qn[q] if q.startswith("uncrustify::BoundedOption<") and q.endswith("::validate")]
    r.require(len(fs) >= 20, "only %d reader/validate functions" % len(fs))
    for f in fs:
        for x in f.all_nodes():
            if x["k"] != "ret" or not x.get("a") or f.nodes[x["a"][0]].get("k") != "bool" or f.nodes[x["a"][0]]["v"] != 0:
                continue
            r.seen()

            def warned(n):
                if n["k"] != "call":
                    return False
                c = n.get("c") or ""
                return c in WARNERS

            def edge_ok(b, i):
                # the false edge of `validate(..)` counts as warned (checked for every BoundedOption::validate here)
                t = f.blocks[b].get("term")
                if t:
                    c = t.get("lc", t.get("c"))
                    cn = f.nodes.get(c)
                    warned_edge = 1
                    while cn is not None and (cn["k"] == "cast" or (cn["k"] == "un" and cn.get("op") == "!")):
                        if cn["k"] == "un":
                            warned_edge = 1 - warned_edge      # `if (!validate(x))`: the true edge is the failed validation
                        cn = f.nodes.get(cn["a"][0])
                    if cn is not None and cn["k"] == "call" and (cn.get("c") or "").endswith("::validate") and i == warned_edge:
                        return False
                return True
            w = f.paths_avoiding(f.entry, lambda n: n["i"] == x["i"], warned, start_is_node=False, edge_ok=edge_ok)
            inst = "%s%s/return-false@%s" % (f.qn.replace("uncrustify::", ""), f.d["sig"].split(",")[-1].strip(")") if "read_" in f.qn else "", len([1 for y in f.all_nodes() if y["k"] == "ret" and y["l"] <= x["l"]]))
            r.check(w is None, inst, db.loc(f, x), "a reader can reject a value without any diagnostic", path=["%s:%d" % (f.file, l) for l in f.path_lines(w[0])] if w else None)
    r.floor(40)


def rule_no_silent_line(ctx):
    db = ctx.db
    r = ctx.rule("no-silent-line", "every path through process_option_line other than the empty-line return passes an effect (add_keyword, "
                 "extension_add, GenericOption::read, load_option_file, a store to compat_level, a compat handler) or a warning; loops whose "
                 "body has such an effect are taken to run at least once (the argument count was checked before)")
    f = db.fn("uncrustify::process_option_line", file=OPT)
    EFFECTS = ("add_keyword", "extension_add", "uncrustify::GenericOption::read", "uncrustify::load_option_file", "uncrustify::OptionWarning::operator()")

    def effect(n):
        if n["k"] == "call":
            c = n.get("c") or ""
            if c in EFFECTS or "process_option_line_compat" in c:
                return True
        if n["k"] == "asg" and expr_str(f, n["a"][0]) == "compat_level":
            return True
        return False
    loops = f.loops()
    eff_loops = {}
    for h, body, backs in loops:
        if any(effect(n) for b in body for n in f.blocks[b]["n"]):
            eff_loops[h] = body

    def edge_ok(b, i):
        t = f.blocks[b].get("term")
        c = t.get("lc", t.get("c")) if t else None
        if c is not None and expr_str(f, c) == "args.empty()":
            return i == 1
        return True
    # search state includes "came from outside the loop": forbid leaving an effect loop through its header when
    # the header was entered from outside (zero iterations)
    from collections import deque
    seen = set()
    dq = deque([(f.entry, None, (f.entry,))])
    witness = None
    while dq:
        b, prev, path = dq.popleft()
        if (b, prev in eff_loops.get(b, ()) if b in eff_loops else None) in seen:
            continue
        seen.add((b, prev in eff_loops.get(b, ()) if b in eff_loops else None))
        if b == f.exit:
            witness = path
            break
        if any(effect(n) for n in f.blocks[b]["n"]) or f.blocks[b].get("nr"):
            continue
        for i, s in enumerate(f.succ[b]):
            if s < 0 or not edge_ok(b, i):
                continue
            if b in eff_loops and s not in eff_loops[b] and (prev is None or prev not in eff_loops[b]):
                continue      # zero-iteration exit of a loop that would have had an effect
            dq.append((s, b, path + (s,)))
    r.seen(len(f.blocks))
    r.check(witness is None, "process_option_line/every-line-has-effect-or-warning", db.loc(f, f.l0),
            "a configuration line can be consumed without any effect and without a diagnostic",
            path=["%s:%d" % (f.file, l) for l in f.path_lines(list(witness))] if witness else None)
    # unknown option names warn: the option_map miss edge leads to a warning
    miss = [b for b, blk in f.blocks.items() if blk.get("term") and "option_map.end()" in expr_str(f, blk["term"].get("lc", blk["term"].get("c")))]
    r.check(len(miss) == 1, "process_option_line/unknown-option-test", db.loc(f, f.l0), "the unknown-option test vanished")
    for b in miss:
        c = f.nodes[f.blocks[b]["term"].get("lc", f.blocks[b]["term"].get("c"))]
        e = 0 if c.get("op") == "==" else 1
        w = f.exit_reachable_avoiding(f.succ[b][e], lambda n: n["k"] == "call" and n.get("c") == "uncrustify::OptionWarning::operator()", start_is_node=False)
        r.check(w is None, "process_option_line/unknown-option-warns", db.loc(f, f.blocks[b]["term"]["l"]), "an unknown option name is not diagnosed")
    r.floor(3)


def throwing_call(n):
    c = n.get("c") or ""
    if n["k"] == "call" and re.match(r"std::(__cxx11::)?sto(i|l|ul|ll|ull|f|d|ld)$", c):
        return "std::" + c.split("::")[-1]
    return None


def regex_ctor(n):
    if n["k"] == "ctor" and "basic_regex" in (n.get("c") or ""):
        return True
    return False


def rule_no_throw(ctx, pid="C16"):
    db = ctx.db
    r = ctx.rule("no-throw", "every std::stoi-family call is dominated by a non-empty, digits-only and length check of the very container it "
                 "converts (the elements are erased otherwise); nothing in the repository catches exceptions, so an unchecked one aborts")
    sites = []
    for f in db.funcs.values():
        for n in f.nodes.values():
            t = throwing_call(n)
            if t:
                sites.append((f, n, t))
    r.require(len(sites) >= 3, "std::sto* call sites vanished (%d): drop this rule's expectations" % len(sites))
    for f, n, t in sites:
        r.seen()
        arg = n["a"][0]
        an = f.nodes.get(arg)
        # root container variable of the argument: vargs[0] -> vargs
        root = None
        for x in walk(f, arg):
            if x["k"] == "ref" and x.get("d") in ("lv", "pv"):
                root = x["n"]
        ok = False
        why = "argument `%s` has no dominating digits/length check" % expr_str(f, arg)
        if root:
            # idiom: a dominating `root.clear()` (or return/continue) controlled by find_first_not_of("0123456789") != npos and size() > k
            for m in f.all_nodes():
                if m["k"] == "call" and (m.get("c") or "").endswith("::clear") and expr_str(f, m.get("o")) == root:
                    conds = "".join(expr_str(f, cn) for cn, pol in f.guard_conds(f.nblock[m["i"]]) if cn is not None and pol is True)
                    if 'find_first_not_of("0123456789"' in conds and ".size() >" in conds and f.dominates_block(_loop_header_of(f, m), f.nblock[n["i"]]):
                        # std::stoi("") throws std::invalid_argument: the check must reject the empty string as well
                        if ".empty()" in conds or re.search(r"\.size\(\) (< 1|== 0|<= 0)", conds):
                            ok = True
                        else:
                            why = "the digits/length check of `%s` accepts the empty string" % root
        # idiom (b): the argument is sub-match k of a regex literal whose k-th capturing group is [0-9]{1,N}, N <= 9
        m2 = re.match(r"(\w+)\[(\d+)\]\.str\(\)$", expr_str(f, arg))
        if not ok and m2:
            k = int(m2.group(2))
            for c in f.all_nodes():
                if c["k"] == "ctor" and "basic_regex" in (c.get("c") or "") and c.get("a"):
                    lit = f.nodes.get(c["a"][0])
                    if lit is not None and lit["k"] == "str":
                        grp = _capture_group(lit["v"], k)
                        mm = re.match(r"\[0-9\]\{1,(\d)\}$", grp or "")
                        if mm and int(mm.group(1)) <= 9:
                            ok = True
                        else:
                            why = "it is capture group %d = `%s` of the pattern, which does not bound the number of digits" % (k, grp)
        inst = "%s/%s(%s)" % (f.qn.replace("uncrustify::", ""), t, expr_str(f, arg))
        r.check(ok, inst, db.loc(f, n), "%s on configuration text: %s; a non-numeric or over-long value terminates uncrustify with an uncaught exception" % (t, why))
    r.floor(3)


def _capture_group(pat, k):
    """text of the k-th capturing group of an ECMAScript regex literal (None if absent)"""
    depth = []
    count = 0
    i = 0
    start = {}
    while i < len(pat):
        ch = pat[i]
        if ch == "\\":
            i += 2
            continue
        if ch == "[":
            j = i + 1
            while j < len(pat) and pat[j] != "]":
                j += 2 if pat[j] == "\\" else 1
            i = j + 1
            continue
        if ch == "(":
            if pat[i + 1:i + 2] == "?":
                depth.append(None)
            else:
                count += 1
                depth.append(count)
                start[count] = i + 1
        elif ch == ")":
            g = depth.pop() if depth else None
            if g == k:
                return pat[start[g]:i]
        i += 1
    return None


def _loop_header_of(f, node):
    """innermost loop header that dominates the node's block (a `break` block is outside the natural loop body but
    still dominated by the header)"""
    b = f.nblock[node["i"]]
    best = None
    for h, body, backs in f.loops():
        if f.dominates_block(h, b):
            if best is None or f.dominates_block(best, h):
                best = h
    return best if best is not None else b


def rule_unsigned_bounded(ctx):
    db = ctx.db
    r = ctx.rule("unsigned-bounded", "every option of type unsigned is a BoundedOption (so validate() range-checks it)")
    n = 0
    for g in db.globals:
        if g["qn"].startswith(OPT_NS) and g.get("def"):
            t = g["t"]
            if "unsigned" in t:
                n += 1
                r.seen()
                if "BoundedOption<" not in t:
                    r.fail(g["n"], "%s:%d" % (g["file"], g["l"]), "unsigned option %s is declared as %s without bounds" % (g["n"], t))
    r.require(n >= 120, "only %d unsigned options found" % n)
    r.ok("all-unsigned-options", None, "%d unsigned options, all bounded" % n)


def nl_sink_options(db):
    """unsigned options whose value can reach a newline-count sink with a raising comparison"""
    uns = set(g["n"] for g in db.globals if g["qn"].startswith(OPT_NS) and g.get("def") and "unsigned" in g["t"])
    SINKS = ("Chunk::SetNlCount", "blank_line_set", "newline_min_after", "newlines_min_after", "blank_line_max")
    found = {}
    for f in db.funcs.values():
        if not (f.file.startswith("src/newlines/") or f.file in ("src/width.cpp", "src/uncrustify.cpp", "src/output.cpp", "src/tokenizer/tokenize_cleanup.cpp")):
            continue
        rd = None
        for n in f.nodes.values():
            if n["k"] != "call" or n.get("c") not in SINKS:
                continue
            if rd is None:
                rd = ReachingDefs(f, db)
            opts = set()
            for a in n.get("a", ()):
                from ..flow import provenance_options
                opts |= provenance_options(f, rd, a)
                # option objects passed by reference (blank_line_set(pc, options::nl_x))
                opts |= options_read(f, a)
            # a sink controlled by `option < current count` only lowers the count (a cap): exempt
            conds = [(expr_str(f, cn), pol) for cn, pol in f.guard_conds(f.nblock[n["i"]]) if cn is not None]
            for o in opts & uns:
                cap = False
                for c, pol in conds:
                    m1 = re.match(r"(?:options::)?%s(?:\(\))? < \w+->GetNlCount\(\)$" % re.escape(o), c)
                    m2 = re.match(r"\w+->GetNlCount\(\) > (?:options::)?%s(?:\(\))?$" % re.escape(o), c)
                    if (m1 or m2) and pol is True:
                        cap = True
                if not cap:
                    found.setdefault(o, []).append((f, n))
    return found


def rule_nl_max_guard(ctx, rid="nl-max-guard"):
    db = ctx.db
    r = ctx.rule(rid, "every unsigned option that reaches a newline-count sink (SetNlCount, blank_line_set, newline_min_after) is "
                 "compared with nl_max in too_big_for_nl_max(); in main that check follows every option store (config file and --set) and "
                 "precedes every source read; a violation exits with EX_CONFIG")
    t = db.fn("too_big_for_nl_max", file="src/too_big_for_nl_max.cpp")
    guarded = set()
    for b, blk in t.blocks.items():
        term = blk.get("term")
        if term and term["k"] == "IfStmt":
            c = t.nodes.get(term.get("lc", term.get("c")))
            if c is not None and c["k"] == "bin" and c["op"] == ">":
                lo = options_read(t, c["a"][0])
                if len(lo) == 1 and expr_str(t, c["a"][1]) in ("nl_max_local", "options::nl_max()"):
                    # the true edge must set the stop flag
                    tgt = t.succ[b][0]
                    if any(n["k"] == "asg" and expr_str(t, n["i"]) == "stop_it = true" for n in t.blocks[tgt]["n"]):
                        guarded |= lo
    r.require(len(guarded) >= 30, "too_big_for_nl_max compares only %d options" % len(guarded))
    # the stop flag leads to exit(EX_CONFIG=78)
    exits = [n for n in t.all_nodes() if is_exit_call(n)]
    r.check(len(exits) == 1 and exit_status(t, exits[0]) == 78 and ("stop_it", True) in [(expr_str(t, cn), pol) for cn, pol in t.guard_conds(t.nblock[exits[0]["i"]]) if cn is not None],
            "too_big_for_nl_max/exits-EX_CONFIG", db.loc(t, exits[0] if exits else t.l0), "a too-big option does not end in exit(EX_CONFIG)")
    sinks = nl_sink_options(db)
    r.require(len(sinks) >= 15, "only %d unsigned options reach a newline-count sink" % len(sinks))
    for o, sites in sorted(sinks.items()):
        r.seen(len(sites))
        if o in ("nl_max",):
            continue
        f, n = sites[0]
        r.check(o in guarded, o, db.loc(f, n), "option %s sets a newline count (%s) but is not compared with nl_max in too_big_for_nl_max(): "
                "a value above nl_max is accepted and produces more blank lines than nl_max allows" % (o, expr_str(f, n["i"])[:70]))
    # ordering in main
    m = db.fn("main", file=UNC)
    tb = db.calls_in(m, "too_big_for_nl_max")
    r.check(len(tb) == 1, "main/calls-check-once", db.loc(m, m.l0), "main calls too_big_for_nl_max %d times" % len(tb))
    if tb:
        tb = tb[0]
        conds = [(expr_str(m, cn), pol) for cn, pol in m.guard_conds(m.nblock[tb["i"]]) if cn is not None]
        r.check(("options::nl_max() > 0", True) in conds, "main/check-under-nl_max>0", db.loc(m, tb), "the check is not under nl_max() > 0")
        stores = [n for n in m.all_nodes() if n["k"] == "call" and (n.get("c") in ("uncrustify::load_option_file",) or (n.get("c") or "").endswith("GenericOption::read"))]
        r.require(len(stores) >= 2, "main: option stores (load_option_file, --set read) not found")
        for s in stores:
            r.seen()
            w = m.paths_avoiding(tb["i"], lambda n: n["i"] == s["i"], lambda n: False)
            r.check(w is None, "main/no-option-store-after-check/%s" % (s.get("c") or "").split("::")[-1], db.loc(m, s),
                    "an option value can still change (%s) after the nl_max consistency check ran" % expr_str(m, s["i"])[:50])
        # every source-processing call is preceded by the test `nl_max() > 0`
        test = [b for b, blk in m.blocks.items() if blk.get("term") and expr_str(m, blk["term"].get("lc", blk["term"].get("c"))) == "options::nl_max() > 0"]
        for n in m.all_nodes():
            if n["k"] == "call" and n.get("c") in ("do_source_file", "uncrustify_file", "process_source_list", "uncrustify_start"):
                r.seen()
                ok = any(m.dominates_block(b, m.nblock[n["i"]]) for b in test)
                r.check(ok, "main/check-before/%s" % n["c"], db.loc(m, n), "%s is reachable without the nl_max consistency test" % n["c"])
    r.floor(20)


def _sccs(nodes, succ):
    """Tarjan, iterative; yields lists of nodes"""
    index = {}
    low = {}
    onstack = set()
    stack = []
    out = []
    counter = [0]
    for root in nodes:
        if root in index:
            continue
        work = [(root, iter(succ(root)))]
        index[root] = low[root] = counter[0]
        counter[0] += 1
        stack.append(root)
        onstack.add(root)
        while work:
            v, it = work[-1]
            advanced = False
            for w in it:
                if w not in index:
                    index[w] = low[w] = counter[0]
                    counter[0] += 1
                    stack.append(w)
                    onstack.add(w)
                    work.append((w, iter(succ(w))))
                    advanced = True
                    break
                elif w in onstack:
                    low[v] = min(low[v], index[w])
            if advanced:
                continue
            work.pop()
            if work:
                low[work[-1][0]] = min(low[work[-1][0]], low[v])
            if low[v] == index[v]:
                comp = []
                while True:
                    w = stack.pop()
                    onstack.discard(w)
                    comp.append(w)
                    if w == v:
                        break
                out.append(comp)
    return out


def rule_bounded_recursion(ctx):
    """`include` makes the configuration reader recursive; a file that includes itself must be refused, not recursed into
    until the stack overflows (found on the pinned tree: segmentation fault, repaired by a fix: commit)."""
    db = ctx.db
    r = ctx.rule("bounded-recursion", "every call-graph cycle reachable from load_option_file() passes a depth guard: in one function of the "
                 "cycle a comparison of a static counter with a bound leads to exit/return and dominates the call that continues the cycle, "
                 "and the counter is incremented before that call")
    root = db.fn("uncrustify::load_option_file", file=OPT)
    reach = db.reachable_from([root])
    succ = lambda k: [c for c in db._callees.get(k, ()) if c in reach and c in db.funcs]
    cyc = [c for c in _sccs(sorted(reach), succ) if len(c) > 1 or c[0] in succ(c[0])]
    r.require(cyc, "the configuration reader is no longer recursive (include directive gone?): drop this rule's expectations")
    from .c11 import gstate
    gs = gstate(db)
    for comp in cyc:
        comp = set(comp)
        names = sorted(db.funcs[k].qn.replace("uncrustify::", "") for k in comp)
        inst = "cycle/" + "+".join(names)
        guarded = None
        for k in sorted(comp):
            f = db.funcs[k]
            # calls that continue the cycle
            cont = [n for n in f.nodes.values() if n["k"] in ("call", "ctor") and any(t in comp for t in gs.call_targets(f, n))]
            if not cont:
                continue
            # candidate guards: blocks whose terminator compares a static-storage variable and whose true edge cannot return normally
            for b, blk in f.blocks.items():
                t = blk.get("term")
                c = f.nodes.get(t.get("lc", t.get("c"))) if t else None
                if c is None or c["k"] != "bin" or c.get("op") not in (">=", ">", "==", "<", "<="):
                    continue
                var = None
                for x in walk(f, c["i"]):
                    if x["k"] == "ref" and x.get("d") in ("sl", "gv", "sv"):
                        if not (x.get("t") or "").startswith("const"):
                            var = x
                if var is None:
                    continue
                tb = f.succ[b][0]
                if tb < 0 or f.exit_reachable_avoiding(tb, lambda n: False, start_is_node=False) and not any(m["k"] == "ret" for m in f.blocks[tb]["n"]):
                    # the guarded arm must end the function (exit / return), not fall through to the recursive call
                    if not f.blocks[tb].get("nr"):
                        continue
                if not all(f.dominates_block(b, f.nblock[n["i"]]) for n in cont):
                    continue
                # the counter is incremented in f, or in a constructor called in f, before the continuing call
                incs = []
                for m in f.nodes.values():
                    if m["k"] == "un" and m.get("op") == "++" and expr_str(f, m["a"][0]) == var["n"]:
                        incs.append(m)
                    if m["k"] in ("ctor", "call", "decl"):
                        for tk in gs.call_targets(f, m):
                            g = db.funcs.get(tk)
                            if g is not None and any(y["k"] == "un" and y.get("op") == "++" and expr_str(g, y["a"][0]) == var["n"] for y in g.nodes.values()):
                                incs.append(m)
                if any(all(f.dominates(m["i"], n["i"]) for n in cont) for m in incs):
                    guarded = (f, b, var["n"])
                    break
            if guarded:
                break
        r.seen()
        r.check(guarded is not None, inst, db.loc(db.funcs[sorted(comp)[0]], db.funcs[sorted(comp)[0]].l0),
                "the recursion %s has no depth guard: a configuration file that includes itself overflows the stack" % " -> ".join(names),
                )
        if guarded:
            r.note("%s: guarded by `%s` in %s" % (inst, guarded[2], guarded[0].qn))
    # state discipline of the recursion: what load_option_file() overwrites for the nested file (the position used by the
    # diagnostics) is put back by the include arm after the nested call returns
    lo = root
    pol = db.fn("uncrustify::process_option_line", file=OPT)
    G = {}
    for n in lo.all_nodes():
        if n["k"] == "asg" or (n["k"] == "call" and n.get("op") == "=" and "o" in n):
            lhs = n["a"][0] if n["k"] == "asg" else n["o"]
            t = lo.nodes.get(lhs)
            name = expr_str(lo, lhs)
            if t is not None and (t["k"] == "mem" and name.startswith("cpd.") or t["k"] == "ref" and t.get("d") in ("gv", "sv")):
                G[name] = n
    nested = [c for c in pol.all_nodes() if c["k"] == "call" and c.get("c") == "uncrustify::load_option_file"]
    r.require(nested, "process_option_line no longer calls load_option_file (include directive gone?)")
    for name, st in sorted(G.items()):
        r.seen()
        for c in nested:
            restores = [m for m in pol.all_nodes() if (m["k"] == "asg" and expr_str(pol, m["a"][0]) == name)
                        or (m["k"] == "call" and m.get("op") == "=" and "o" in m and expr_str(pol, m["o"]) == name)]
            w = pol.exit_reachable_avoiding(c["i"], lambda y: any(y["i"] == m["i"] for m in restores))
            r.check(not w, "include/restores/%s" % name, db.loc(pol, c),
                    "load_option_file() overwrites `%s` for the included file, and the include arm of process_option_line() can return without "
                    "putting it back: diagnostics for the rest of the including file name the wrong position" % name)
    r.floor(2)


def rule_no_failure_after_store(ctx):
    """a line that is diagnosed leaves the option exactly as it was: a reader that has stored (or has called a reader that
    stored) cannot report failure afterwards"""
    db = ctx.db
    r = ctx.rule("no-failure-after-store", "in every Option<T>::read / read_enum / read_number no `return false` is reachable from a store to "
                 "m_val or from the success edge of a call to a storing reader")
    fs = [f for q in db.by_qn for f in db.by_qn[q] if re.match(r"uncrustify::Option<.*>::read$", q)] + _readers(db)
    seenk = set()
    n = 0
    for f in fs:
        if f.key in seenk:
            continue
        seenk.add(f.key)
        starts = []
        for x in f.all_nodes():
            if x["k"] == "asg" and (f.nodes.get(x["a"][0]) or {}).get("k") == "mem" and f.nodes[x["a"][0]]["n"] == "m_val":
                starts.append(("store", x, None))
        for b, blk in f.blocks.items():
            t = blk.get("term")
            c = f.nodes.get(t.get("lc", t.get("c"))) if t and t.get("c") is not None else None
            neg = False
            while c is not None and (c["k"] == "cast" or (c["k"] == "un" and c.get("op") == "!")):
                if c["k"] == "un":
                    neg = not neg
                c = f.nodes.get(c["a"][0])
            if c is not None and c["k"] == "call" and (c.get("c") or "").split("::")[-1] in ("read_enum", "read_number", "convert_string") and len(f.succ[b]) == 2:
                starts.append(("call", c, f.succ[b][1 if neg else 0]))
        for kind, x, blk0 in starts:
            n += 1
            r.seen()
            def is_fail(y):
                return y["k"] == "ret" and y.get("a") and (f.nodes.get(y["a"][0]) or {}).get("k") == "bool" and f.nodes[y["a"][0]]["v"] == 0
            if kind == "store":
                w = f.paths_avoiding(x["i"], is_fail, lambda y: False)
            else:
                w = f.paths_avoiding(blk0, is_fail, lambda y: False, start_is_node=False) if blk0 is not None and blk0 >= 0 else None
            r.check(w is None, "%s/%s@%s" % (f.qn.replace("uncrustify::", ""), kind, expr_str(f, x["i"])[:30]), db.loc(f, x),
                    "after `%s` succeeded the reader can still return false: the option keeps a value from a line that is reported as bad"
                    % expr_str(f, x["i"])[:60], path=["%s:%d" % (f.file, l) for l in f.path_lines(w[0])][-6:] if w else None)
    r.require(n >= 6, "only %d stores / storing calls in the readers" % n)
    r.floor(6)


def rule_number_whole_and_fits(ctx):
    """strtol() returns 0 for an empty string and a `long` for any digit string: `indent_columns = ""` must not store 0, and
    99999999999 must not be stored into an int as its low 32 bits"""
    db = ctx.db
    r = ctx.rule("number-whole-and-fits", "in every read_number<T> instantiation the store of the strtol() result into m_val is controlled by: "
                 "the end pointer differs from the start (some digits were read), the end pointer is at the terminating NUL, and the value "
                 "lies between numeric_limits<T>::min() and max(); no strchr() on a possibly empty value (it finds the terminating NUL)")
    fs = [f for f in _readers(db) if f.qn.split("::")[-1].startswith("read_number")]
    r.require(len(fs) >= 2, "only %d read_number instantiations" % len(fs))
    for f in fs:
        def _is_val(x):
            t = expr_str(f, x["a"][1]).replace("(int)", "").replace("(unsigned int)", "").strip("()")
            if t == "val":
                return True
            sn = f.nodes.get(x["a"][1])
            while sn is not None and sn["k"] == "cast":
                sn = f.nodes.get(sn["a"][0])
            if sn is not None and sn["k"] == "ref" and sn.get("d") == "lv":
                from ..flow import ReachingDefs as _RD3, var_id as _vid3
                _rd = _RD3(f, db)
                ds = _rd.at(x["i"], _vid3(sn))
                return len(ds) == 1 and _rd.rhs_of(ds[0]) is not None and _strip_casts(f, _rd.rhs_of(ds[0])) == "val"
            return False
        sts = [x for x in f.all_nodes() if x["k"] == "asg" and (f.nodes.get(x["a"][0]) or {}).get("k") == "mem" and f.nodes[x["a"][0]]["n"] == "m_val" and _is_val(x)]
        r.require(len(sts) == 1, "%s: %d stores of the strtol value" % (f.qn, len(sts)))
        x = sts[0]
        cs = [(expr_str(f, cn), pol) for cn, pol in f.guard_conds(f.nblock[x["i"]]) if cn is not None]
        inst = f.qn.replace("uncrustify::", "")
        r.check(("c != in", True) in cs or ("in != c", True) in cs or ("c == in", False) in cs, inst + "/some-digits-read", db.loc(f, x),
                "the value is stored although strtol() may have read nothing (empty value = 0): facts %s" % cs)
        r.check(("*c == 0", True) in cs or ("*c != 0", False) in cs, inst + "/whole-value-read", db.loc(f, x), "the value is stored although text follows the number: facts %s" % cs)
        lo = any(pol is True and "numeric_limits" in c and (re.search(r">= .*min\(\)", c) or re.search(r"min\(\) <= ", c)) for c, pol in cs)
        hi = any(pol is True and "numeric_limits" in c and (re.search(r"<= .*max\(\)", c) or re.search(r"max\(\) >= ", c)) for c, pol in cs)
        r.check(lo and hi, inst + "/fits-the-option-type", db.loc(f, x), "the long value is cast to the option's type without a range test against numeric_limits: facts %s" % cs)
    # a referenced option is negated in `long`: -uopt() on the unsigned value itself wraps to 4294967292
    n_neg = 0
    for f in fs:
        for n in f.all_nodes():
            if n["k"] == "un" and n.get("op") == "-":
                x = f.nodes.get(n["a"][0])
                while x is not None and x["k"] == "cast" and (x.get("t") or "") in ("long", "const long"):
                    break
                if x is None or x["k"] in ("int",):
                    continue
                n_neg += 1
                r.seen()
                t = (x.get("t") or "").replace("const ", "")
                r.check(t in ("long", "long long", "ptrdiff_t"), f.qn.replace("uncrustify::", "") + "/negation-in-long(%s)" % expr_str(f, x["i"])[:20], db.loc(f, n),
                        "`%s` negates a value of type `%s`: an unsigned option value wraps instead of becoming negative, the range check then "
                        "refuses a valid reference" % (expr_str(f, n["i"]), t or "?"))
    r.require(n_neg >= 2, "only %d negations found in read_number" % n_neg)
    n_sc = 0
    for f in _readers(db):
        for n in f.all_nodes():
            if n["k"] == "call" and (n.get("c") or "").replace("std::", "") == "strchr" and len(n.get("a", ())) == 2:
                n_sc += 1
                r.seen()
                xs = expr_str(f, n["a"][1])
                cs = [(expr_str(f, cn), pol) for cn, pol in f.guard_conds(f.nblock[n["i"]]) if cn is not None]
                ok = any((c in (xs + " != 0", xs) and pol is True) or (c in (xs + " == 0", "!" + xs) and pol is False) for c, pol in cs)
                r.check(ok, f.qn.replace("uncrustify::", "") + "/strchr(.., %s)" % xs, db.loc(f, n),
                        "strchr() also finds the terminating NUL: for an empty value `%s` is 0, the test succeeds and the reader steps past "
                        "the end of the string" % xs)
    r.floor(6)


def rule_diagnostic_names_file(ctx):
    """a diagnostic "names the file, line and option": the file is the one load_option_file() is reading - for a line of an
    included file not the top-level config (found on the pinned tree; repaired)"""
    db = ctx.db
    r = ctx.rule("diagnostic-names-file", "both OptionWarning constructors print a file name that is, or is derived from, state which "
                 "load_option_file() (or an object it constructs) sets for the file it reads, together with cpd.line_number")
    lo = db.fn("uncrustify::load_option_file", file=OPT)
    written = set()
    from .c11 import gstate
    gs = gstate(db)
    fs = [lo] + [db.funcs[t] for n in lo.nodes.values() if n["k"] in ("ctor", "decl", "call") for t in gs.call_targets(lo, n) if t in db.funcs and db.funcs[t].file == OPT and db.funcs[t].d.get("cls")]
    for g in fs:
        for n in g.nodes.values():
            if n["k"] == "asg":
                t = g.nodes.get(n["a"][0])
                if t is not None and t["k"] == "ref" and t.get("d") in ("gv", "sv"):
                    written.add(t["n"])
    ctors = [g for g in db.funcs.values() if g.qn == "uncrustify::OptionWarning::OptionWarning"]
    r.require(len(ctors) >= 2, "OptionWarning constructors not found")
    for g in ctors:
        r.seen()
        pr = [n for n in g.all_nodes() if n["k"] == "call" and n.get("c") == "fprintf"]
        r.require(pr, "OptionWarning constructor prints nothing")
        takes_name = any(p["t"].replace("const ", "").strip() == "char *" for p in g.d.get("params", ()))
        r.check(any("cpd.line_number" in expr_str(g, n["i"]) for n in pr), "OptionWarning/prints-line/%s" % ("filename" if takes_name else "option"), db.loc(g, pr[0]),
                "the diagnostic does not print cpd.line_number")
        for n in pr:
            txt = expr_str(g, n["i"])
            if "%s" not in txt:
                continue
            if takes_name:
                pname = [p["n"] for p in g.d["params"] if p["t"].replace("const ", "").strip() == "char *"][0]
                r.check(pname in txt, "OptionWarning(filename)/prints-its-argument", db.loc(g, n), "the file-name constructor does not print its argument")
            else:
                refs = set(x["n"] for x in walk(g, n["i"]) if x["k"] == "ref" and x.get("d") in ("gv", "sv"))
                r.check(bool(refs & written), "OptionWarning(option)/prints-current-file", db.loc(g, n),
                        "the diagnostic for a bad option value prints a file name that load_option_file() does not maintain (reads %s; maintained: %s): "
                        "a line of an included file is reported under the top-level file" % (sorted(refs) or "cpd.filename only", sorted(written) or "nothing"))

    r.floor(3)


RULES = [rule_store_after_validate, rule_fail_warns, rule_no_silent_line, rule_no_throw, rule_unsigned_bounded, rule_nl_max_guard, rule_bounded_recursion, rule_diagnostic_names_file, rule_no_failure_after_store, rule_number_whole_and_fits]
