"""C09 Encoding is transparent: commutes with transcoding, Unicode round-trips.

Decided (closed-form agreement of sibling tables extracted from the parsed program): the UTF-8 encoder's branches have
disjoint bit fields that exactly cover their range and match, branch by branch, the decoder's lead-byte patterns,
payload masks and continuation counts; the decoder rejects every overlong form (canonical form: otherwise bytes are
silently rewritten); UTF-16 surrogate arithmetic and byte order agree between reader and writer; write_char/write_bom
dispatch over every encoding with the byte order the decoder used; cpd.enc/cpd.bom are assigned only in
uncrustify_file from what the loader detected (plus the utf8_* options); every byte leaves through write_byte.
Not decided: the two-run equation format(transcode(x)) = transcode(format(x)) itself; quality of the BOM-less UTF-16 guess.
"""
import re
from ..facts import expr_str, walk, global_path, enum_consts
from .common_io import UNC

UNI = "src/unicode.cpp"


def tree(f, i, depth=0):
    n = f.nodes.get(i)
    if n is None or depth > 12:
        return ("?",)
    k = n["k"]
    if k == "int":
        return ("int", n["v"])
    if k == "chr":
        return ("int", n["v"])
    if k == "ref":
        return ("var", n["n"])
    if k in ("bin", "asg"):
        return (n["op"], tree(f, n["a"][0], depth + 1), tree(f, n["a"][1], depth + 1))
    if k == "un":
        return ("u" + n["op"], tree(f, n["a"][0], depth + 1))
    if k == "cast":
        return tree(f, n["a"][0], depth + 1)
    if k == "idx":
        return ("idx", tree(f, n["a"][0], depth + 1), tree(f, n["a"][1], depth + 1))
    if k == "call":
        if n.get("op") == "[]" and "o" in n:
            return ("idx", tree(f, n["o"], depth + 1), tree(f, n["a"][0], depth + 1))
        return ("call", n.get("c"), tuple(tree(f, a, depth + 1) for a in n.get("a", ())))
    if k == "mem":
        return ("mem", n["n"], tree(f, n["b"], depth + 1))
    return ("?", k)


def byte_field(t, var="ch"):
    """decompose a pushed byte expression into (prefix, shift, mask): prefix | ((var >> shift) & mask); mask None = unmasked"""
    if t == ("var", var):
        return (0, 0, None)
    if t[0] == "|" and t[1][0] == "int":
        p = t[1][1]
        inner = t[2]
        mask = None
        if inner[0] == "&" and inner[2][0] == "int":
            mask = inner[2][1]
            inner = inner[1]
        if inner == ("var", var):
            return (p, 0, mask)
        if inner[0] == ">>" and inner[1] == ("var", var) and inner[2][0] == "int":
            return (p, inner[2][1], mask)
    return None


def lead_payload_bits(prefix):
    """number of payload bits of a UTF-8 lead byte with the given prefix (110xxxxx -> 5)"""
    ones = 0
    b = 0x80
    while prefix & b:
        ones += 1
        b >>= 1
    return 8 - ones - 1


def rule_utf8_tables(ctx):
    db = ctx.db
    r = ctx.rule("utf8-tables", "encode_utf8 and decode_utf8 agree branch by branch (threshold = 2^(payload bits), disjoint covering bit "
                 "fields, lead pattern/mask, continuation count and test) and the decoder rejects values below the previous branch's "
                 "threshold (overlong forms)")
    e = db.fn("encode_utf8", file=UNI)
    d = db.fn("decode_utf8", file=UNI)
    # ---- encoder branches: walk the if/else-if chain on `ch < T`
    enc = []      # (threshold or None, [byte fields])
    for b in sorted(e.blocks, reverse=True):
        blk = e.blocks[b]
        t = blk.get("term")
        if not t or t["k"] != "IfStmt":
            continue
        c = tree(e, t.get("lc", t.get("c")))
        if c[0] in ("<", "<=") and c[1] == ("var", "ch") and c[2][0] == "int":
            T = c[2][1] + (1 if c[0] == "<=" else 0)       # `ch <= c` is `ch < c + 1`
            pushes = [n for n in e.blocks[e.succ[b][0]]["n"] if n["k"] == "call" and (n.get("c") or "").endswith("::push_back")]
            enc.append((T, [byte_field(tree(e, p["a"][0])) for p in pushes], b))
    r.require(len(enc) >= 6, "encode_utf8: %d `ch < T` branches" % len(enc))
    # final else branch: the false successor of the last test
    last = enc[-1][2]
    pushes = [n for n in e.blocks[e.succ[last][1]]["n"] if n["k"] == "call" and (n.get("c") or "").endswith("::push_back")]
    enc.append((None, [byte_field(tree(e, p["a"][0])) for p in pushes], None))
    enc = [x for x in enc if x[1]]       # drop the `ch < 0` no-op branch
    r.require([len(x[1]) for x in enc] == [1, 2, 3, 4, 5, 6], "encode_utf8 branches emit %s bytes" % [len(x[1]) for x in enc])
    prefixes = {}
    for (T, fields, _b) in enc:
        n = len(fields)
        r.seen(n)
        inst = "encode/%d-byte" % n
        if any(fl is None for fl in fields):
            r.fail(inst, db.loc(e, e.l0), "a pushed byte of the %d-byte branch is not of the form prefix | ((ch >> s) & mask)" % n)
            continue
        if n == 1:
            r.check(fields[0] == (0, 0, None) and T == 0x80, inst, db.loc(e, e.l0), "1-byte branch must push ch for ch < 0x80")
            continue
        lead = fields[0]
        prefixes[n] = lead[0]
        ok = lead[1] == 6 * (n - 1) and lead[2] is None
        for j, fl in enumerate(fields[1:]):
            ok = ok and fl == (0x80, 6 * (n - 2 - j), 0x3f)
        bits = lead_payload_bits(lead[0]) + 6 * (n - 1)
        if T is not None:
            ok = ok and T == (1 << bits)
        r.check(ok, inst, db.loc(e, e.l0), "bit fields of the %d-byte branch do not tile [0, log2(threshold)): lead %s, continuation %s, threshold %s (expected %s)"
                % (n, lead, fields[1:], hex(T) if T else None, hex(1 << bits)))
    # ---- decoder branches
    dec = {}
    for b in sorted(d.blocks, reverse=True):
        blk = d.blocks[b]
        t = blk.get("term")
        if not t or t["k"] != "IfStmt":
            continue
        c = tree(d, t.get("lc", t.get("c")))
        if c[0] == "==" and c[1][0] == "&" and c[1][1] == ("var", "ch") and c[1][2][0] == "int" and c[2][0] == "int":
            M, V = c[1][2][1], c[2][1]
            tb = d.blocks[d.succ[b][0]]["n"]
            pay = cnt = mn = None
            for n in tb:
                if n["k"] == "asg":
                    tt = tree(d, n["i"])
                    if tt[0] == "&=" and tt[1] == ("var", "ch") and tt[2][0] == "int":
                        pay = tt[2][1]
                    if tt[0] == "=" and tt[1] == ("var", "cnt") and tt[2][0] == "int":
                        cnt = tt[2][1]
                    if tt[0] == "=" and tt[1][0] == "var" and tt[1][1] not in ("ch", "cnt") and tt[2][0] == "int":
                        mn = (tt[1][1], tt[2][1])
            dec[cnt] = (M, V, pay, mn, blk)
    r.require(sorted(k for k in dec if k) == [1, 2, 3, 4, 5], "decode_utf8 multi-byte branches: %s" % sorted(k for k in dec if k))
    thresholds = {len(x[1]): x[0] for x in enc}
    minvar = set()
    for cnt in (1, 2, 3, 4, 5):
        M, V, pay, mn, blk = dec[cnt]
        n = cnt + 1
        r.seen()
        r.check(V == prefixes.get(n) and M == ((V >> 1) | V | 0x80) & 0xff and pay == (~M & 0xff), "decode/%d-byte/lead" % n, db.loc(d, blk["term"]["l"]),
                "decoder lead test (ch & %s) == %s with payload mask %s does not match the encoder's %d-byte prefix %s"
                % (hex(M), hex(V), hex(pay) if pay is not None else None, n, hex(prefixes.get(n, 0))))
        want = thresholds.get(n - 1)
        r.check(mn is not None and mn[1] == want, "decode/%d-byte/canonical-minimum" % n, db.loc(d, blk["term"]["l"]),
                "the %d-byte decoder branch does not record the smallest value that needs %d bytes (%s): overlong forms decode and are "
                "re-encoded shorter, silently changing the file's bytes" % (n, n, hex(want) if want else None))
        if mn:
            minvar.add(mn[0])
    # the rejection: `ch < <minvar>` true edge returns false, placed after the continuation loop and before the push
    rej = False
    for b, blk in d.blocks.items():
        t = blk.get("term")
        if t and t["k"] == "IfStmt":
            c = tree(d, t.get("lc", t.get("c")))
            if c[0] == "<" and c[1] == ("var", "ch") and c[2][0] == "var" and c[2][1] in minvar:
                tgt = d.blocks[d.succ[b][0]]["n"]
                if any(n["k"] == "ret" and expr_str(d, n["i"]) == "return false" for n in tgt):
                    # every multi-byte path to push_back passes this test
                    pushes = [n for n in d.all_nodes() if n["k"] == "call" and (n.get("c") or "").endswith("::push_back") and ("ch < 128", True) not in
                              [(expr_str(d, cn), pol) for cn, pol in d.guard_conds(d.nblock[n["i"]]) if cn is not None]]
                    rej = all(d.dominates_block(b, d.nblock[p["i"]]) for p in pushes) and bool(pushes)
    r.check(rej and len(minvar) == 1, "decode/overlong-rejected", db.loc(d, d.l0), "no `ch < minimum` rejection dominates the multi-byte push_back")
    # continuation bytes
    cont = [tree(d, blk["term"].get("lc", blk["term"].get("c"))) for blk in d.blocks.values() if blk.get("term") and blk["term"]["k"] == "IfStmt"]
    r.check(("!=", ("&", ("var", "tmp"), ("int", 0xC0)), ("int", 0x80)) in cont, "decode/continuation-test", db.loc(d, d.l0), "continuation test is not (tmp & 0xC0) != 0x80")
    acc = [tree(d, n["i"]) for n in d.all_nodes() if n["k"] == "asg"]
    r.check(("=", ("var", "ch"), ("|", ("<<", ("var", "ch"), ("int", 6)), ("&", ("var", "tmp"), ("int", 0x3f)))) in acc, "decode/accumulate", db.loc(d, d.l0),
            "continuation accumulation is not ch = (ch << 6) | (tmp & 0x3f)")
    # short sequence rejected
    r.check(any(c == (">=", ("var", "cnt"), ("int", 0)) for c in cont), "decode/short-sequence-test", db.loc(d, d.l0), "truncated sequences are no longer rejected")
    r.floor(14)


def rule_utf16_tables(ctx):
    db = ctx.db
    r = ctx.rule("utf16-tables", "decode_utf16/get_word and write_utf16 agree on surrogate constants (0xD800/0xDC00/0x3ff/10/0x10000), "
                 "ranges and byte order")
    d = db.fn("decode_utf16", file=UNI)
    w = db.fn("write_utf16", file=UNI)
    g = db.fn("get_word", file=UNI)
    dconds = [tree(d, blk["term"].get("lc", blk["term"].get("c"))) for blk in d.blocks.values() if blk.get("term")]
    r.check(("==", ("&", ("var", "ch"), ("int", 0xfc00)), ("int", 0xd800)) in dconds, "decode/high-surrogate-test", db.loc(d, d.l0), "high surrogate test changed")
    r.check(("!=", ("&", ("var", "tmp"), ("int", 0xfc00)), ("int", 0xdc00)) in dconds, "decode/low-surrogate-test", db.loc(d, d.l0), "low surrogate test changed")
    dasg = [tree(d, n["i"]) for n in d.all_nodes() if n["k"] == "asg"]
    for want, name in ((("&=", ("var", "ch"), ("int", 0x3ff)), "mask-high"), (("<<=", ("var", "ch"), ("int", 10)), "shift-high"),
                       (("|=", ("var", "ch"), ("&", ("var", "tmp"), ("int", 0x3ff))), "or-low"), (("+=", ("var", "ch"), ("int", 0x10000)), "add-base")):
        r.check(want in dasg, "decode/%s" % name, db.loc(d, d.l0), "decoder step %s missing" % (want,))
    wasg = {}
    for n in w.all_nodes():
        if n["k"] == "decl":
            for v in n["vars"]:
                if "init" in v:
                    wasg[v["n"]] = tree(w, v["init"])
    r.check(wasg.get("v1") == ("-", ("var", "ch"), ("int", 0x10000)) and wasg.get("w1") == ("+", ("int", 0xD800), (">>", ("var", "v1"), ("int", 10)))
            and wasg.get("w2") == ("+", ("int", 0xDC00), ("&", ("var", "v1"), ("int", 0x3ff))), "write/surrogate-arithmetic", db.loc(w, w.l0),
            "writer's surrogate arithmetic %s does not invert the decoder's" % wasg)
    # byte order: under `be` true the high byte is written first
    for b, blk in w.blocks.items():
        calls = [n for n in blk["n"] if n["k"] == "call" and n.get("c") == "write_byte"]
        if len(calls) in (2, 4):
            conds = [(expr_str(w, cn), pol) for cn, pol in w.guard_conds(b) if cn is not None]
            be = ("be", True) in conds
            le = ("be", False) in conds
            if not (be or le):
                continue
            r.seen()
            seq = [tree(w, c["a"][0]) for c in calls]
            hi_first = all(seq[2 * j][0] == ">>" and seq[2 * j + 1][0] == "&" for j in range(len(seq) // 2))
            lo_first = all(seq[2 * j][0] == "&" and seq[2 * j + 1][0] == ">>" for j in range(len(seq) // 2))
            r.check((be and hi_first) or (le and lo_first), "write/byte-order/%s/%d" % ("be" if be else "le", len(calls)), db.loc(w, calls[0]),
                    "byte order under be=%s is %s" % (be, seq))
    gasg = [tree(g, n["i"]) for n in g.all_nodes() if n["k"] == "asg"]
    be_t = ("=", ("var", "ch"), ("|", ("<<", ("idx", ("var", "in_data"), ("var", "idx")), ("int", 8)), ("idx", ("var", "in_data"), ("+", ("var", "idx"), ("int", 1)))))
    le_t = ("=", ("var", "ch"), ("|", ("idx", ("var", "in_data"), ("var", "idx")), ("<<", ("idx", ("var", "in_data"), ("+", ("var", "idx"), ("int", 1))), ("int", 8))))
    ok = False
    for n in g.all_nodes():
        if n["k"] == "asg" and tree(g, n["i"]) == be_t:
            ok = ("be", True) in [(expr_str(g, cn), pol) for cn, pol in g.guard_conds(g.nblock[n["i"]]) if cn is not None]
    r.check(ok and le_t in gasg, "get_word/byte-order", db.loc(g, g.l0), "get_word's byte order changed: %s" % gasg)
    # be flag derived from the detected encoding
    bed = [v for n in d.all_nodes() if n["k"] == "decl" for v in n["vars"] if v["n"] == "be"]
    r.check(len(bed) == 1 and expr_str(d, bed[0]["init"]) == "enc == e_UTF16_BE", "decode/be-from-enc", db.loc(d, d.l0), "be flag is %s" % (expr_str(d, bed[0]["init"]) if bed else None))
    # ranges accepted by both: [0,0xD800) u [0xE000, ...)
    def _half_open(t):
        """`x <= K` reads `x < K+1` and `x > K` reads `x >= K+1` (integer literals): range tests are compared as half-open intervals"""
        t = re.sub(r"<= (\d+)", lambda m: "< %d" % (int(m.group(1)) + 1), t)
        return re.sub(r"(?<![<>=])> (\d+)", lambda m: ">= %d" % (int(m.group(1)) + 1), t)
    wconds = [_half_open(expr_str(w, blk["term"].get("c"))) for blk in w.blocks.values() if blk.get("term") and blk["term"]["k"] == "IfStmt"]
    r.check(any("ch < 55296" in c and "ch >= 57344" in c for c in wconds), "write/bmp-range", db.loc(w, w.l0), "writer's BMP range test changed: %s" % wconds)
    r.check(any("ch >= 0 && ch < 55296 || ch >= 57344" in _half_open(expr_str(d, blk["term"].get("c"))) for blk in d.blocks.values() if blk.get("term") and blk["term"]["k"] == "IfStmt"),
            "decode/bmp-range", db.loc(d, d.l0), "decoder's BMP range test changed")
    r.floor(12)


def arm_nodes(f, s):
    """nodes of a switch arm, following fall-through of empty stacked labels (`case A: case B: stmt`)"""
    guard = 0
    while not f.blocks[s]["n"] and len(f.succ[s]) == 1 and f.succ[s][0] >= 0 and guard < 10:
        s = f.succ[s][0]
        guard += 1
    return f.blocks[s]["n"]


def rule_enc_switch(ctx):
    db = ctx.db
    r = ctx.rule("enc-switch", "write_char and write_bom switch over cpd.enc, name every char_encoding_e enumerator or route it to the "
                 "byte writer, and pair UTF16_LE/BE with be=false/true as the decoder does")
    enum = db.enums.get("char_encoding_e")
    r.require(enum is not None, "enum char_encoding_e not found")
    names = set(e[0] for e in enum["e"])
    r.require(names == {"e_ASCII", "e_BYTE", "e_UTF8", "e_UTF16_LE", "e_UTF16_BE"}, "char_encoding_e changed: %s (a new encoding needs a writer arm)" % sorted(names))
    for fn, expect in (("write_char", {"e_BYTE": "write_byte(ch & 255)", "e_ASCII": "write_byte(ch)", "e_UTF8": "write_utf8(ch)", "e_UTF16_LE": "write_utf16(ch, false)", "e_UTF16_BE": "write_utf16(ch, true)"}),
                       ("write_bom", {"e_UTF8": ["write_byte(239)", "write_byte(187)", "write_byte(191)"], "e_UTF16_LE": "write_utf16(65279, false)", "e_UTF16_BE": "write_utf16(65279, true)"})):
        f = db.fn(fn, file=UNI)
        sw = [b for b, blk in f.blocks.items() if blk.get("term") and blk["term"]["k"] == "SwitchStmt"]
        r.require(len(sw) == 1 and expr_str(f, f.blocks[sw[0]]["term"]["c"]) == "cpd.enc", "%s does not switch over cpd.enc" % fn)
        arms = {}
        dflt = None
        for s in f.succ[sw[0]]:
            if s < 0:
                continue
            lab = f.blocks[s].get("lab", {})
            calls = [expr_str(f, n["i"]) for n in arm_nodes(f, s) if n["k"] == "call" and n.get("c") in ("write_byte", "write_utf8", "write_utf16")]
            for c in lab.get("case", ()):
                arms[c] = calls
            if lab.get("default"):
                dflt = calls
        for name, want in expect.items():
            r.seen()
            got = arms.get(name)
            if got is None and dflt is not None:
                got = dflt
            want_l = want if isinstance(want, list) else [want]
            r.check(got == want_l, "%s/%s" % (fn, name), db.loc(f, f.l0), "%s arm for %s does %s, expected %s" % (fn, name, got, want_l))
        if fn == "write_char":
            conds = [(expr_str(f, cn), pol) for cn, pol in f.guard_conds(sw[0]) if cn is not None]
            r.check(conds == [("ch >= 0", True)], "write_char/only-nonnegative-filter", db.loc(f, f.l0), "write_char filters characters by %s" % conds)
    r.floor(9)


def rule_one_encoder(ctx):
    """the tables rule decides encode_utf8/decode_utf8; it is worth something only if the output path uses that encoder"""
    db = ctx.db
    r = ctx.rule("one-encoder", "write_utf8() obtains every byte it writes from encode_utf8(): it calls it once, passes only elements of the "
                 "vector it filled to write_byte(), and does no bit arithmetic of its own")
    w = db.fn("write_utf8", file=UNI)
    enc = db.calls_in(w, "encode_utf8")
    r.check(len(enc) == 1, "write_utf8/calls-encode_utf8", db.loc(w, w.l0), "write_utf8 calls encode_utf8 %d times: a second, private encoder is not "
            "covered by the table agreement with decode_utf8 (values the decoder accepts may be written differently)" % len(enc))
    arith = [n for n in w.all_nodes() if n["k"] == "bin" and n.get("op") in ("|", ">>", "<<", "&")]
    r.check(not arith, "write_utf8/no-private-arithmetic", db.loc(w, arith[0] if arith else w.l0), "write_utf8 assembles bytes itself: `%s`" % (expr_str(w, arith[0]["i"]) if arith else ""))
    wb = db.calls_in(w, "write_byte")
    r.check(len(wb) >= 1, "write_utf8/writes", db.loc(w, w.l0), "write_utf8 does not call write_byte")
    r.floor(3)


def rule_no_codepoint_narrowing(ctx):
    """text is held as code points (UncText = deque<int>, TokenContext::peek/get return size_t); a code point that passes
    through a `char` keeps its low byte only: U+FF09 compares equal to a tab, U+012B to '+'"""
    db = ctx.db
    r = ctx.rule("no-codepoint-narrowing", "no code point obtained from UncText / deque<int> (operator[], at, back, front) or from "
                 "TokenContext::peek/get is converted, implicitly or explicitly, to an 8-bit type - as an argument, an initialiser or an "
                 "assignment (facts: every integral conversion to an 8-bit type in the AST, implicit ones included)")
    SRC = re.compile(r"(^|::)(UncText|deque<int[^>]*>)::(operator\[\]|at|back|front)$|^TokenContext::(peek|get)$")
    n_conv = n_src = 0
    for f in sorted(db.funcs.values(), key=lambda g: (g.file, g.l0)):
        if not f.file.startswith("src/"):
            continue
        n_src += sum(1 for n in f.all_nodes() if n["k"] == "call" and SRC.search(n.get("c") or ""))
        per = {}
        for x in f.d.get("narrow", ()):
            n_conv += 1
            if SRC.search(x.get("c") or ""):
                per.setdefault(x["c"].split("::")[-2].split("<")[0] + "::" + x["c"].split("::")[-1], []).append(x)
        for c, xs in sorted(per.items()):
            r.seen(len(xs))
            r.fail("%s/%s" % (f.qn.split("::")[-1], c), "%s:%d" % (f.file, xs[0]["l"]),
                   "a code point from %s() is converted to %s (%d place%s, first: `%s`): every value above 0xFF is cut to its low byte"
                   % (c, xs[0]["to"], len(xs), "s" if len(xs) > 1 else "", db.src_line(f.file, xs[0]["l"]).strip()[:70]))
    # libc functions that take an int and convert it to char themselves: strchr(s, c) looks for (char)c - and finds the
    # terminating NUL for c == 0
    n_libc = 0
    for f in sorted(db.funcs.values(), key=lambda g: (g.file, g.l0)):
        if not f.file.startswith("src/"):
            continue
        for n in f.all_nodes():
            if n["k"] != "call" or (n.get("c") or "").replace("std::", "") not in ("strchr", "strrchr", "memchr") or len(n.get("a", ())) < 2:
                continue
            n_libc += 1
            x = f.nodes.get(n["a"][1])
            while x is not None and x["k"] == "cast":
                x = f.nodes.get(x["a"][0])
            if x is None or x["k"] != "call" or not SRC.search(x.get("c") or ""):
                continue
            r.seen()
            xs = expr_str(f, x["i"])
            cs = [(expr_str(f, cn), pol) for cn, pol in f.guard_conds(f.nblock[n["i"]]) if cn is not None]
            hi = any((c in (xs + " >= 128", xs + " > 127") and pol is False) or (c in (xs + " < 128", xs + " <= 127") and pol is True) for c, pol in cs)
            lo = any((c in (xs + " <= 0", xs + " == 0", xs + " < 1") and pol is False) or (c in (xs + " > 0", xs + " != 0") and pol is True) for c, pol in cs)
            r.check(hi and lo, "%s/%s(.., %s)" % (f.qn.split("::")[-1], n["c"], xs), db.loc(f, n),
                    "%s() converts the code point `%s` to char and also matches the terminating NUL; the call is not controlled by "
                    "`%s` in 1..127 (facts: %s)" % (n["c"], xs, xs, [c for c, p in cs if xs in c]))
    r.require(n_libc >= 3, "only %d strchr/strrchr/memchr calls found" % n_libc)
    r.seen(n_conv)
    r.require(n_conv >= 30, "only %d conversions to 8-bit types in the facts: the extractor no longer records them" % n_conv)
    r.require(n_src >= 250, "only %d code point sources (UncText element accesses, TokenContext::peek/get) found" % n_src)
    r.ok("conversions-scanned", "src/unc_text.h:1", "%d conversions to 8-bit types, %d code point sources" % (n_conv, n_src))
    r.floor(1)


def rule_no_bytes_as_codepoints(ctx):
    """Chunk::Text() / UncText::c_str() is the UTF-8 *byte* string of a chunk (kept for logging); the UncText methods that take
    `const char *` or std::string store every byte as one code point.  Feeding one into the other turns U+00F6 into the two
    code points 0xC3 0xB6 (written as four bytes) - or, through the signed char, into negative values that write_char() drops"""
    db = ctx.db
    r = ctx.rule("no-bytes-as-codepoints", "no argument of a byte-string entry of UncText (constructor, set, append, =, += taking const char * / "
                 "std::string) is, or is a local std::string built from, Chunk::Text() / UncText::c_str()")
    n_calls = 0
    for f in sorted(db.funcs.values(), key=lambda g: (g.file, g.l0)):
        if not f.file.startswith("src/") or f.file == "src/unc_text.cpp":
            continue
        feeds = {}
        for n in f.all_nodes():
            if n["k"] == "call" and "basic_string" in (n.get("c") or "") and "o" in n and n.get("a"):
                o = f.nodes.get(n["o"])
                if o is not None and o["k"] == "ref":
                    feeds.setdefault(o["n"], []).append(" ".join(expr_str(f, a) for a in n["a"]))
            if n["k"] == "decl":
                for v in n["vars"]:
                    if v.get("init") is not None and "string" in (v.get("t") or ""):
                        feeds.setdefault(v["n"], []).append(expr_str(f, v["init"]))
        for n in f.all_nodes():
            if n["k"] not in ("call", "ctor") or "UncText" not in (n.get("c") or "") or not n.get("a"):
                continue
            base = (n.get("c") or "").split("::")[-1]
            if base not in ("UncText", "set", "append", "operator=", "operator+="):
                continue
            g = db.func_of_call(f, n) if n["k"] == "call" else None
            sig = g.d["sig"] if g is not None else (n.get("sig") or "")
            a0 = f.nodes.get(n["a"][0])
            while a0 is not None and a0["k"] == "cast":
                a0 = f.nodes.get(a0["a"][0])
            if a0 is None or a0["k"] in ("str", "int", "chr"):
                continue
            at = (a0.get("t") or "")
            if not ("char" in sig or "string" in sig or "char" in at or "string" in at):
                continue
            n_calls += 1
            r.seen()
            texts = [expr_str(f, a0["i"])]
            if a0["k"] == "ref":
                texts += feeds.get(a0["n"], [])
            bad = [t for t in texts if re.search(r"(->|\.)Text\(\)|GetStr\(\)\.c_str\(\)|Str\(\)\.c_str\(\)", t)]
            r.check(not bad, "%s/%s(%s)" % (f.qn.split("::")[-1], base, expr_str(f, a0["i"])[:30]), db.loc(f, n),
                    "the UTF-8 bytes of a chunk (`%s`) are stored as code points by UncText::%s: every character beyond ASCII is corrupted or lost"
                    % (bad[0][:60] if bad else "", base))
    r.require(n_calls >= 10, "only %d byte-string entries of UncText with a non-literal argument found" % n_calls)
    r.floor(10)


def rule_enc_flow(ctx):
    db = ctx.db
    r = ctx.rule("enc-flow", "cpd.enc/cpd.bom are assigned only in uncrustify_file (from fm.enc/fm.bom and the utf8_* options); write_bom is "
                 "called only from output_text under cpd.bom; fputc(.., cpd.fout) only in write_byte; write_byte's callers are the encoders")
    u = db.fn("uncrustify_file", file=UNC)
    n_as = 0
    for f in db.funcs.values():
        if f.file == "src/uncrustify_emscripten.cpp":
            continue
        for n in f.nodes.values():
            if n["k"] == "asg":
                gp = global_path(f, n["a"][0])
                if gp in ("cpd.enc", "cpd.bom"):
                    n_as += 1
                    r.seen()
                    r.check(f.key == u.key, "%s-assigned-in/%s" % (gp, f.qn), db.loc(f, n), "%s is assigned in %s" % (gp, f.qn))
                    if f.key == u.key:
                        rhs = expr_str(f, n["a"][1])
                        conds = [(expr_str(f, cn), pol) for cn, pol in f.guard_conds(f.nblock[n["i"]]) if cn is not None]
                        if gp == "cpd.enc":
                            ok = rhs == "fm.enc" or (rhs == "e_UTF8" and any("utf8_force" in c and pol for c, pol in conds))
                        else:
                            ok = rhs == "fm.bom" or (rhs in ("false", "true") and any(c.startswith("av ") for c, pol in conds))
                        r.check(ok, "uncrustify_file/%s=%s" % (gp, rhs), db.loc(f, n), "%s receives `%s` under %s" % (gp, rhs, conds))
    r.require(n_as >= 4, "only %d assignments to cpd.enc/cpd.bom" % n_as)
    # av (the BOM decision) derives from utf8_bom / IARF_FORCE for UTF-16 / IGNORE otherwise, by switch over cpd.enc
    sw = [b for b, blk in u.blocks.items() if blk.get("term") and blk["term"]["k"] == "SwitchStmt" and expr_str(u, blk["term"]["c"]) == "cpd.enc"]
    r.check(len(sw) == 1, "uncrustify_file/bom-policy-switch", db.loc(u, u.l0), "the BOM policy switch over cpd.enc vanished")
    if sw:
        pol = {}
        for s in u.succ[sw[0]]:
            if s < 0:
                continue
            lab = u.blocks[s].get("lab", {})
            st = [expr_str(u, n["a"][1]) for n in arm_nodes(u, s) if n["k"] == "asg" and expr_str(u, n["a"][0]) == "av"]
            for c in lab.get("case", ()):
                pol[c] = st
            if lab.get("default"):
                pol["default"] = st
        r.check(pol.get("e_UTF8") == ["options::utf8_bom()"] and pol.get("e_UTF16_LE") == ["IARF_FORCE"] and pol.get("e_UTF16_BE") == ["IARF_FORCE"] and pol.get("default") == ["IARF_IGNORE"],
                "uncrustify_file/bom-policy", db.loc(u, u.blocks[sw[0]]["term"]["l"]), "BOM policy table changed: %s" % pol)
    for f, n in db.callers_of("write_bom"):
        if f.file == "src/uncrustify_emscripten.cpp":
            continue
        r.seen()
        conds = [(expr_str(f, cn), pol) for cn, pol in f.guard_conds(f.nblock[n["i"]]) if cn is not None]
        r.check(f.qn == "output_text" and ("cpd.bom", True) in conds, "write_bom<-%s" % f.qn, db.loc(f, n), "write_bom called from %s under %s" % (f.qn, conds))
    allowed = {"write_byte": {"write_utf8", "write_utf16", "write_bom", "write_char"}, "write_utf8": {"write_char"}, "write_utf16": {"write_char", "write_bom"},
               "encode_utf8": {"write_utf8", "UncText::update_logtext", "UncText::to_utf8", "UncText::UncText"}}
    for callee, ok in allowed.items():
        for f, n in db.callers_of(callee):
            if f.file == "src/uncrustify_emscripten.cpp":
                continue
            r.seen()
            r.check(f.qn in ok or f.qn.startswith("UncText::") or f.qn == "toLogTextUtf8", "%s<-%s" % (callee, f.qn), db.loc(f, n), "%s called from %s" % (callee, f.qn))
    r.floor(12)


RULES = [rule_utf8_tables, rule_utf16_tables, rule_enc_switch, rule_enc_flow, rule_one_encoder, rule_no_codepoint_narrowing, rule_no_bytes_as_codepoints]
