"""Helpers shared by the file-protocol properties (C12, C13, C14)."""
from ..facts import expr_str, walk, callee_names, enum_consts
from ..flow import ReachingDefs, var_id

UNC = "src/uncrustify.cpp"

FILE_MUTATORS = ("rename", "unlink", "remove", "renameat", "MoveFileEx", "MoveFileExA", "utime", "utimes", "mkdir",
                 "truncate", "ftruncate", "link", "symlink", "chmod")


def is_call(n, name):
    return n["k"] == "call" and n.get("c") == name


def fopen_mode(f, n):
    """mode literal of an fopen/freopen call or None"""
    if n["k"] != "call" or n.get("c") not in ("fopen", "freopen", "fopen64"):
        return None
    if len(n.get("a", ())) < 2:
        return "?"
    m = f.nodes.get(n["a"][1])
    if m and m["k"] == "str":
        return m["v"]
    return "?"


def is_write_open(f, n):
    m = fopen_mode(f, n)
    return m is not None and (m == "?" or any(c in m for c in "wa+"))


def exit_status(f, n):
    """symbolic status of an exit()/return-in-main argument: name of constant or integer"""
    if not n.get("a"):
        return None
    a = f.nodes.get(n["a"][0])
    if a is None:
        return None
    if a["k"] == "int":
        return a["v"]
    if a["k"] == "ref":
        return a["n"]
    return expr_str(f, a["i"])


def is_exit_call(n):
    return n["k"] == "call" and n.get("c") in ("exit", "_exit", "abort", "std::exit", "quick_exit")


def region_always_exits(f, start_block, forbidden):
    """from the head of start_block every path reaches an exit() with a non-zero status before any node
    matching `forbidden` and before leaving the function.  Returns (ok, witness)"""
    def nonzero_exit(n):
        return is_exit_call(n) and exit_status(f, n) not in (0, "EXIT_SUCCESS", "EX_OK")
    w = f.paths_avoiding(start_block, forbidden, nonzero_exit, start_is_node=False)
    if w is not None:
        return False, w
    p = f.exit_reachable_avoiding(start_block, nonzero_exit, start_is_node=False)
    if p is not None:
        return False, (p, None)
    return True, None
