"""C08 Line endings: one consistent terminator, and formatting commutes with it.

Decided: (single-writer) every character reaches the output through add_char/add_text, where '\\n' is replaced by
cpd.newline and '\\r' is dropped; (newline-table) cpd.newline is assigned only at the tail of tokenize() by an exhaustive
three-way table keyed on the newlines option and the census; (census) every line break the tokenizer consumes outside
disabled regions is counted once for the census.
Not decided: the commutation equations between two runs.
"""
import re

from ..facts import expr_str, walk, global_path, in_macro
from .common_io import UNC

TOK = "src/tokenizer/tokenize.cpp"
OUT = "src/output.cpp"


def _conds(f, n):
    return [(expr_str(f, cn), pol) for cn, pol in f.guard_conds(f.nblock[n["i"]]) if cn is not None]


def rule_single_writer(ctx, rid="single-writer"):
    db = ctx.db
    r = ctx.rule(rid, "write_char/write_string are called only by add_char, add_spaces, add_text(ignored) and the tracking line "
                 "numbering; in add_char a '\\n' writes exactly cpd.newline, a '\\r' writes nothing, anything else is written once")
    allowed = {"write_char": {"add_char", "add_spaces", "add_text", "write_string"}, "write_string": {"add_char", "print_numbering"}}
    for callee, ok in allowed.items():
        sites = db.callers_of(callee)
        r.require(sites, "no caller of %s" % callee)
        for f, n in sites:
            if f.file == "src/uncrustify_emscripten.cpp":
                continue
            r.seen()
            r.check(f.qn in ok and f.file in (OUT, "src/unicode.cpp"), "%s<-%s" % (callee, f.qn), db.loc(f, n), "%s is called from %s" % (callee, f.qn))
    a = db.fn("add_char", file=OUT)
    r.names(a, "ch")
    writes = [n for n in a.all_nodes() if n["k"] == "call" and n.get("c") in ("write_char", "write_string")]
    r.require(len(writes) >= 3, "add_char has %d write calls" % len(writes))
    for n in writes:
        r.seen()
        cs = _conds(a, n)
        arg = expr_str(a, n["a"][0])
        if arg == "cpd.newline":
            ok = ("ch == '\\n'", True) in cs or (("cpd.last_char == '\\r'", True) in cs and ("ch != '\\n'", True) in cs)
            r.check(ok, "add_char/newline-only-for-line-break", db.loc(a, n), "cpd.newline is written under %s" % cs)
        else:
            ok = arg == "ch" and ("ch == '\\n'", False) in cs and ("ch == '\\r'", False) in cs
            r.check(ok, "add_char/char-written-verbatim-unless-CR-LF", db.loc(a, n), "`%s` is written under %s (a raw CR or LF can reach the output)" % (expr_str(a, n["i"]), cs))
    nl = [n for n in writes if expr_str(a, n["a"][0]) == "cpd.newline" and ("ch == '\\n'", True) in _conds(a, n)]
    r.check(len(nl) == 1, "add_char/LF-writes-newline-once", db.loc(a, a.l0), "the '\\n' branch writes cpd.newline %d times" % len(nl))
    # add_text(is_ignored): raw write of a chunk that cannot contain CR/LF (C07.ignored-is-whole-line) - who passes is_ignored=true
    t = [f for f in db.fns("add_text") if f.file == OUT and "UncText" in f.d["sig"]]
    r.require(len(t) == 1, "add_text(const UncText &, bool, bool) not found")
    t = t[0]
    for n in [x for x in t.all_nodes() if x["k"] == "call" and x.get("c") == "write_char"]:
        cs = _conds(t, n)
        r.check(("is_ignored", True) in cs, "add_text/raw-write-only-if-ignored", db.loc(t, n), "add_text writes raw characters under %s" % cs)
    # ... and who asks for the raw path: only the arm of output_text() that writes a CT_IGNORED / CT_JUNK chunk (one line of a
    # disabled region, which holds no line break; CT_JUNK is assigned nowhere).  Any other text written raw keeps the CR / LF bytes of the input.
    n_raw = 0
    for f, n in db.callers_of_key(t.key):
        a = n.get("a", ())
        flag = f.nodes.get(a[1]) if len(a) > 1 else None
        while flag is not None and flag["k"] == "cast":
            flag = f.nodes.get(flag["a"][0])
        if flag is None or (flag["k"] == "bool" and not flag["v"]):
            continue
        n_raw += 1
        r.seen()
        cs = _conds(f, n)
        r.check(flag["k"] == "bool" and f.qn == "output_text" and any(pol is True and set(x.strip() for x in t.split(" || ")) <= {"pc->Is(CT_IGNORED)", "pc->Is(CT_JUNK)"} and "pc->Is(CT_IGNORED)" in t for t, pol in cs), "add_text(raw)<-%s/%s" % (f.qn, expr_str(f, a[0])[:30]), db.loc(f, n),
                "`%s` takes add_text()'s raw path, which bypasses add_char(): line breaks inside that text are written as they were read, not as "
                "cpd.newline (controlling conditions: %s)" % (expr_str(f, n["i"])[:60], cs[-3:]))
    r.require(n_raw >= 1, "no caller passes is_ignored = true to add_text()")
    r.floor(9)


def rule_newline_table(ctx):
    db = ctx.db
    r = ctx.rule("newline-table", "cpd.newline is stored only at the tail of tokenize(): LF under newlines==LE_LF or auto with LF most "
                 "frequent, CRLF likewise, CR otherwise; every returning path of tokenize passes exactly one of the three stores")
    stores = []
    for f in db.funcs.values():
        for n in f.nodes.values():
            if n["k"] == "call" and n.get("op") == "=" and "o" in n and global_path(f, n["o"]) == "cpd.newline":
                stores.append((f, n))
            if n["k"] == "asg" and global_path(f, n["a"][0]) == "cpd.newline":
                stores.append((f, n))
    r.require(len(stores) >= 3, "cpd.newline has %d stores" % len(stores))
    tk = db.fn("tokenize", file=TOK)
    table = {}
    for f, n in stores:
        r.seen()
        if not r.check(f.key == tk.key, "cpd.newline-stored-in/%s" % f.qn, db.loc(f, n), "cpd.newline is assigned in %s" % f.qn):
            continue
        val = f.nodes[n["a"][0]].get("v") if n["k"] == "call" else None
        table[val] = _conds(f, n)
    want_lf = "options::newlines() == LE_LF || options::newlines() == LE_AUTO && cpd.le_counts[(size_t)LE_LF] >= cpd.le_counts[(size_t)LE_CRLF] && cpd.le_counts[(size_t)LE_LF] >= cpd.le_counts[(size_t)LE_CR]"
    want_crlf = "options::newlines() == LE_CRLF || options::newlines() == LE_AUTO && cpd.le_counts[(size_t)LE_CRLF] >= cpd.le_counts[(size_t)LE_LF] && cpd.le_counts[(size_t)LE_CRLF] >= cpd.le_counts[(size_t)LE_CR]"

    def norm(s):
        return s.replace("unsigned long", "size_t").replace("(unsigned long)", "(size_t)")
    lf = [norm(c) for c, pol in table.get("\n", []) if pol is True]
    crlf_t = [norm(c) for c, pol in table.get("\r\n", []) if pol is True]
    crlf_f = [norm(c) for c, pol in table.get("\r\n", []) if pol is False]
    cr_f = [norm(c) for c, pol in table.get("\r", []) if pol is False]
    r.check(set(table) == {"\n", "\r\n", "\r"}, "tokenize/three-values", db.loc(tk, tk.l1), "cpd.newline can become %s" % sorted(repr(k) for k in table))
    r.check(want_lf in lf, "tokenize/LF-row", db.loc(tk, tk.l1), "LF row is guarded by %s" % lf)
    r.check(want_crlf in crlf_t and want_lf in crlf_f, "tokenize/CRLF-row", db.loc(tk, tk.l1), "CRLF row is guarded by %s / not %s" % (crlf_t, crlf_f))
    r.check(want_lf in cr_f and want_crlf in cr_f, "tokenize/CR-row", db.loc(tk, tk.l1), "CR row is not the else of both: %s" % cr_f)
    # every returning path passes a store
    ids = set(n["i"] for f, n in stores if f.key == tk.key)
    first = next(iter(tk.all_nodes()))
    p = tk.exit_reachable_avoiding(tk.entry, lambda n: n["i"] in ids, start_is_node=False)
    r.check(p is None, "tokenize/always-sets-newline", db.loc(tk, tk.l0), "tokenize can return without choosing cpd.newline")
    # readers of cpd.newline: only add_char (output) and get_eol_marker (config writer)
    for f in db.funcs.values():
        for n in f.nodes.values():
            if n["k"] == "mem" and n["n"] == "newline" and global_path(f, n["i"]) == "cpd.newline" and not in_macro(n, "LOG_FMT"):
                r.seen()
                r.check(f.qn in ("add_char", "tokenize", "uncrustify::get_eol_marker", "cmt_output_indent", "output_comment_multi", "add_comment_text") or f.file == OUT,
                        "cpd.newline-read-in/%s" % f.qn, db.loc(f, n), "cpd.newline is read in %s" % f.qn)
    r.floor(8)


def _is_le_inc(f, n):
    if n["k"] == "un" and n["op"] == "++":
        gp = global_path(f, n["a"][0])
        return gp is not None and gp.startswith("cpd.le_counts")
    return False


def _is_break_event(f, n):
    """the tokenizer records one more line break in the chunk being built"""
    if n["k"] == "call" and (n.get("c") or "").endswith("Chunk::SetNlCount") and n.get("a"):
        s = expr_str(f, n["a"][0])
        return s.endswith("GetNlCount() + 1") or s == "1"
    if n["k"] == "un" and n["op"] == "++":
        t = f.nodes.get(n["a"][0])
        return t is not None and t["k"] == "ref" and t.get("d") == "lv" and t["n"] in ("nl_count", "nl_cnt")
    return False


def rule_census(ctx):
    db = ctx.db
    r = ctx.rule("census", "in the tokenizer (parse_ignored excepted: disabled regions are exempt) every event that records one more line "
                 "break in a chunk (SetNlCount(GetNlCount()+1), SetNlCount(1), nl_count++) is preceded, since the previous such event, by "
                 "an increment of cpd.le_counts on every path")
    n_ev = 0
    n_inc = 0
    for f in db.funcs.values():
        if f.file != TOK or f.qn == "parse_ignored":
            continue
        evs = [n for n in f.all_nodes() if _is_break_event(f, n)]
        n_inc += sum(1 for n in f.all_nodes() if _is_le_inc(f, n))
        if not evs:
            continue
        ev_ids = set(n["i"] for n in evs)
        bad = []
        for e in evs:
            n_ev += 1
            r.seen()
            # backward search from e: fail if the function entry or another break event is reached before an increment
            b0 = f.nblock[e["i"]]
            pos = f.npos[e["i"]]
            seen = set()
            work = [(b0, pos)]
            miss = None
            first = True
            while work and miss is None:
                b, p = work.pop()
                if not first:
                    if b in seen:
                        continue
                    seen.add(b)
                first = False
                ns = f.blocks[b]["n"][:p] if p is not None else f.blocks[b]["n"]
                cut = False
                for n in reversed(ns):
                    if _is_le_inc(f, n):
                        cut = True
                        break
                    if n["i"] in ev_ids:
                        miss = n
                        cut = True
                        break
                if cut:
                    continue
                if b == f.entry:
                    miss = e
                    break
                for pb in f.pred[b]:
                    work.append((pb, None))
            if miss is not None:
                # or counted right after the event: no path from e to the next break event / the exit avoids an increment
                w = f.paths_avoiding(e["i"], lambda n: n["i"] in ev_ids, lambda n: _is_le_inc(f, n))
                x = f.exit_reachable_avoiding(e["i"], lambda n: _is_le_inc(f, n)) if w is None else True
                if w is not None or x is not None:
                    bad.append(e)
        if bad:
            r.fail(f.qn, db.loc(f, bad[0]), "%s records a consumed line break (`%s`%s) without counting it in cpd.le_counts: with newlines=auto "
                   "the census under-counts these line endings" % (f.qn, expr_str(f, bad[0]["i"])[:50], " and %d more sites" % (len(bad) - 1) if len(bad) > 1 else ""))
        else:
            r.ok(f.qn, db.loc(f, evs[0]), "%d break events counted" % len(evs))
    r.require(n_ev >= 10 and n_inc >= 9, "only %d line-break events / %d census increments found in the tokenizer" % (n_ev, n_inc))
    # the census itself is only written in the tokenizer and reset in uncrustify_end
    for f in db.funcs.values():
        for n in f.nodes.values():
            if _is_le_inc(f, n):
                r.check(f.file == TOK, "le_counts-incremented-in/%s" % f.qn, db.loc(f, n), "census incremented outside the tokenizer")
    r.floor(8)


def rule_cr_lf_symmetry(ctx):
    """thorough tier: every condition of the tokenizer that tests a character against '\\n' also tests '\\r' (same
    condition, or the function handles '\\r' in a sibling test)"""
    db = ctx.db
    r = ctx.rule("cr-lf-symmetry", "every tokenizer function that compares an input character with '\\n' also compares one with '\\r'")
    for f in db.funcs.values():
        if f.file != TOK:
            continue
        lf = [n for n in f.all_nodes() if n["k"] == "chr" and n["v"] == 10 and not in_macro(n, "LOG_FMT")]
        cr = [n for n in f.all_nodes() if n["k"] == "chr" and n["v"] == 13 and not in_macro(n, "LOG_FMT")]
        labs = [c for blk in f.blocks.values() for c in blk.get("lab", {}).get("case", ())]
        has_lf = bool(lf) or "10" in labs
        has_cr = bool(cr) or "13" in labs
        if has_lf or has_cr:
            r.seen()
            r.check(has_lf == has_cr, f.qn, "%s:%d" % (f.file, (lf or cr)[0]["l"] if (lf or cr) else f.l0), "%s tests only %s" % (f.qn, "'\\n'" if has_lf else "'\\r'"))
    r.floor(8)


def rule_census_monotone(ctx):
    """newlines=auto takes the most frequent terminator of the *input*: the census in cpd.le_counts must only grow
    between the first character read and the choice at the tail of tokenize() - which is re-entered for every inserted
    comment template - so the only place that may reset it is uncrustify_end()."""
    db = ctx.db
    r = ctx.rule("census-monotone", "every mention of cpd.le_counts is an element increment (LE_COUNT), an element read in tokenize()'s choice "
                 "of cpd.newline or a diagnostic, or the reset in uncrustify_end(); it is never aliased, passed on or stored to elsewhere")
    n_inc = n_read = n_reset = 0
    for f in db.funcs.values():
        ps = f.parents()
        for n in f.nodes.values():
            if n["k"] != "mem" or n.get("n") != "le_counts":
                continue
            r.seen()
            chain = []
            top = n["i"]
            while ps.get(top) and len(chain) < 3:
                top = ps[top][0]
                chain.append(f.nodes[top])
            k0 = chain[0] if chain else None
            k1 = chain[1] if len(chain) > 1 else None
            inst = "%s/%s" % (f.qn, expr_str(f, chain[1]["i"] if k1 is not None else (k0["i"] if k0 is not None else n["i"]))[:50])
            loc = db.loc(f, n)
            if k0 is not None and k0["k"] == "idx" and k1 is not None and k1["k"] == "un" and k1.get("op") == "++":
                n_inc += 1
                continue
            if k0 is not None and k0["k"] == "idx" and k1 is not None and (k1["k"] == "bin" and k1.get("op") in (">=", ">", "<", "<=", "==", "!=")
                                                                         or k1["k"] == "call" and k1.get("c") in ("log_fmt", "fprintf")
                                                                         or k1["k"] == "cast"):
                # a read of one element: comparison (the choice), a diagnostic argument, or an rvalue conversion
                if k1["k"] == "cast":
                    k2 = chain[2] if len(chain) > 2 else None
                    if k2 is None or k2["k"] not in ("bin", "call") or (k2["k"] == "bin" and k2.get("op") == "="):
                        r.fail(inst, loc, "cpd.le_counts element used in `%s`" % expr_str(f, (k2 or k1)["i"])[:80])
                        continue
                n_read += 1
                r.check(f.qn == "tokenize" or k1["k"] == "call", inst, loc, "the line-ending census is read outside tokenize()'s choice of cpd.newline")
                continue
            if k0 is not None and k0["k"] == "call" and k0.get("c") == "memset":
                n_reset += 1
                r.check(f.qn == "uncrustify_end", inst, loc, "cpd.le_counts is reset in %s(): the census of the input gathered so far is lost before "
                        "tokenize() chooses cpd.newline (tokenize() runs again for every inserted comment template)" % f.qn)
                continue
            r.fail(inst, loc, "cpd.le_counts is aliased / stored to / passed on in %s (`%s`): only LE_COUNT increments, the choice in tokenize() "
                   "and the reset in uncrustify_end() may touch the census" % (f.qn, expr_str(f, (k1 or k0 or n)["i"])[:80]))
    r.require(n_inc >= 15 and n_read >= 4 and n_reset >= 1, "census anchors: %d increments, %d reads, %d resets" % (n_inc, n_read, n_reset))
    r.note("increments=%d reads=%d resets=%d" % (n_inc, n_read, n_reset))
    r.floor(1)


def rule_region_uncounted(ctx, rid="region-uncounted"):
    """`newlines = auto` counts the input's terminators *outside* disabled regions (C08), and the content of a region must
    not influence anything outside it (C07): nothing that parse_ignored() can call increments the census."""
    db = ctx.db
    r = ctx.rule(rid, "no function reachable from parse_ignored() (the tokenizer while processing is disabled) increments cpd.le_counts")
    pi = db.fn("parse_ignored", file=TOK)
    reach = db.reachable_from([pi])
    r.require(len(reach) >= 3, "parse_ignored calls nothing (%d functions reachable)" % len(reach))
    n = 0
    for k in sorted(reach):
        f = db.funcs[k]
        if f.file != TOK:
            continue
        n += 1
        r.seen()
        incs = [x for x in f.nodes.values() if x["k"] == "mem" and x.get("n") == "le_counts"]
        r.check(not incs, "%s/no-census-in-region" % f.qn, db.loc(f, incs[0] if incs else f.l0),
                "%s() is reachable from parse_ignored() and touches cpd.le_counts: the terminators inside a disabled region would decide the "
                "terminator written for the whole file" % f.qn)
    r.floor(3)


def rule_census_classes(ctx):
    """which counter a line break feeds: LF only where the break was shown not to start with CR, CRLF only for CR followed by
    LF, CR only for CR not followed by LF - otherwise the '\n' of a CRLF pair is counted as LF and `newlines = auto` picks the
    wrong terminator for CRLF files"""
    db = ctx.db
    r = ctx.rule("census-classes", "every increment of the LF counter is on the false side of a test for '\\r' (or in the `case '\\n'` arm of a "
                 "switch that has a `case '\\r'` arm consuming the following '\\n'); every CRLF increment on the true side of a '\\r' test and of a "
                 "test that the next character is '\\n'; every CR increment on the true side of '\\r' and the false side of the '\\n' test")
    n = 0
    for f in db.funcs.values():
        if f.file != TOK:
            continue
        ps = f.parents()
        cnt = {}
        for x in f.nodes.values():
            if x["k"] != "mem" or x.get("n") != "le_counts":
                continue
            chain = []
            top = x["i"]
            while ps.get(top) and len(chain) < 2:
                top = ps[top][0]
                chain.append(f.nodes[top])
            if not (len(chain) == 2 and chain[0]["k"] == "idx" and chain[1]["k"] == "un" and chain[1].get("op") == "++"):
                continue
            which = expr_str(f, chain[0]["a"][1])
            kind = "CRLF" if which.endswith("LE_CRLF") else ("CR" if which.endswith("LE_CR") else ("LF" if which.endswith("LE_LF") else None))
            if kind is None:
                continue
            n += 1
            r.seen()
            b = f.nblock[x["i"]]
            cs = [(expr_str(f, cn), pol) for cn, pol in f.guard_conds(b) if cn is not None]
            cr_t = any(pol is True and re.search(r"== '\\r'$", c) and "||" not in c for c, pol in cs) or any(isinstance(pol, tuple) and pol[0] == "case" and "'\\r'" in str(pol[1]) and pol[2] is not False for c, pol in cs)
            cr_f = any(pol is False and re.search(r"== '\\r'$", c) and "||" not in c for c, pol in cs)
            lf_next_t = any(pol is True and (c.endswith("peek() == '\\n'") or c.endswith("expect('\\n')")) for c, pol in cs)
            lf_next_f = any(pol is False and (c.endswith("peek() == '\\n'") or c.endswith("expect('\\n')")) for c, pol in cs)
            lab = f.blocks[b].get("lab", {}).get("case", ())
            in_case = lambda ch: any(str(c) in (ch, str(ord(eval(ch)))) for c in lab)
            cnt[kind] = cnt.get(kind, 0) + 1
            inst = "%s/%s%s" % (f.qn, kind, "" if cnt[kind] == 1 else "#%d" % cnt[kind])
            if kind == "LF":
                ok = cr_f or _switch_arm(f, b, "\n", "\r")
                r.check(ok, inst, db.loc(f, x), "the LF counter is incremented without the break having been shown not to begin with CR (facts: %s): "
                        "the LF of a CRLF pair is counted as LF" % [c for c in cs if "'\\r'" in c[0] or "'\\n'" in c[0]])
            elif kind == "CRLF":
                ok = (cr_t or _switch_arm(f, b, "\r", None)) and lf_next_t
                r.check(ok, inst, db.loc(f, x), "the CRLF counter is incremented outside (CR seen, next character is LF): %s" % cs[-4:])
            else:
                ok = (cr_t or _switch_arm(f, b, "\r", None)) and lf_next_f
                r.check(ok, inst, db.loc(f, x), "the CR counter is incremented outside (CR seen, next character is not LF): %s" % cs[-4:])
    r.require(n >= 18, "only %d census increments found" % n)
    r.floor(18)


def _switch_arm(f, b, ch, sibling):
    """block b lies in the `case <ch>` arm of a switch (guard fact of kind case) whose switch also has a `case <sibling>` arm"""
    want = str(ord(ch))
    for cn, pol in f.guard_conds(b):
        if isinstance(pol, tuple) and pol[0] == "case":
            labels = [str(x) for x in pol[1]]
            if any(l in (want, repr(ch), "'%s'" % ch.encode("unicode_escape").decode()) for l in labels):
                if sibling is None:
                    return True
                sw = f.nblock.get(cn)
                allc = set()
                if sw is not None:
                    for s2 in f.succ[sw]:
                        if s2 >= 0:
                            allc |= set(str(x) for x in f.blocks[s2].get("lab", {}).get("case", ()))
                sib = str(ord(sibling))
                return any(l in (sib, "'%s'" % sibling.encode("unicode_escape").decode()) for l in allc) or sw is None
    return False


def RULES_for(tier):
    return [rule_single_writer, rule_newline_table, rule_census, rule_census_monotone, rule_census_classes, rule_region_uncounted] + ([rule_cr_lf_symmetry] if tier == "thorough" else [])


RULES = [rule_single_writer, rule_newline_table, rule_census, rule_census_monotone, rule_census_classes, rule_region_uncounted]
