"""C19 Spacing options mean what they say at the places they are reported to govern.

Decided here (see DESIGN.md section 4, C19):
  name-value   every return of do_space() whose last logged rule names an IARF option returns a value that is a
               function of that very option (and of no other sp_ IARF option)
  single-path  do_space is reached only through do_space_ensured -> ensure_force_space, consumed only by the three
               appliers; ensure_force_space only ever adds IARF_ADD
  apply        the appliers' switch over the decision covers the four values; FORCE adds exactly min_sp columns,
               REMOVE adds none, and neither looks at original columns
"""
import re
from collections import defaultdict

from ..facts import expr_str, options_read, walk, in_macro, OPT_NS, enum_consts
from ..flow import forward, ReachingDefs, provenance_options
from . import common_space


def iarf_options(db):
    out = set()
    allopts = set()
    for g in db.globals:
        if g["qn"].startswith(OPT_NS):
            name = g["qn"][len(OPT_NS):]
            allopts.add(name)
            if "Option<uncrustify::iarf_e>" in g["t"] or g["t"].endswith("Option<iarf_e>"):
                out.add(name)
    return out, allopts


def last_rule_flow(f, logfn="log_rule2", argidx=2):
    """per block: set of rule names that can be the most recently logged one at block entry"""
    gen = {}
    for b, blk in f.blocks.items():
        last = None
        for n in blk["n"]:
            if n["k"] == "call" and n.get("c") == logfn and len(n.get("a", ())) > argidx:
                a = f.nodes.get(n["a"][argidx])
                last = (a["v"] if a and a["k"] == "str" else "?", n["i"])
        gen[b] = last
    IN, OUT = forward(f, lambda b, i: frozenset([gen[b]]) if gen[b] is not None else i, frozenset([(None, -1)]))
    return IN


def names_at(f, IN, node, logfn="log_rule2", argidx=2):
    b = f.nblock[node["i"]]
    run = []
    for m in f.blocks[b]["n"][:f.npos[node["i"]]]:
        if m["k"] == "call" and m.get("c") == logfn and len(m.get("a", ())) > argidx:
            a = f.nodes.get(m["a"][argidx])
            run.append((a["v"] if a and a["k"] == "str" else "?", m["i"]))
    if run:
        return set(run), True
    return set(IN[b]), False


def lead_ident(s):
    if not s:
        return None
    m = re.match(r"[A-Za-z_][A-Za-z_0-9]*", s)
    return m.group(0) if m else None


def rule_name_value(ctx):
    db = ctx.db
    iarf, allopts = iarf_options(db)
    f = db.fn("do_space", file="src/space.cpp")
    r = ctx.rule("name-value", "each return of do_space whose last logged rule names an IARF option returns a function of "
                 "exactly that option (value or a guard on it), no other sp_ IARF option")
    r.require(len(iarf) >= 200, "fewer than 200 Option<iarf_e> objects found (%d)" % len(iarf))
    IN = last_rule_flow(f)
    rd = ReachingDefs(f, db)
    counter = defaultdict(int)
    attributed = 0
    nrets = 0
    for n in f.all_nodes():
        if n["k"] != "ret":
            continue
        nrets += 1
        r.seen()
        names, local = names_at(f, IN, n)
        leads = set(lead_ident(x[0]) for x in names)
        N = set(x for x in leads if x in iarf)
        if not N:
            continue
        attributed += 1
        V = provenance_options(f, rd, n["i"]) if n.get("a") else set()
        # options read by the conditions this return is control dependent on and that are evaluated after the log
        C = set()
        for (cn, pol) in f.guard_conds(f.nblock[n["i"]]):
            if cn is not None:
                C |= options_read(f, cn)
        key = "+".join(sorted(N))
        counter[key] += 1
        inst = "do_space/%s/%d" % (key, counter[key])
        loc = db.loc(f, n)
        missing = N - (V | C)
        foreign = set(x for x in (V - N) if x in iarf and x.startswith("sp_"))
        if missing:
            r.fail(inst, loc, "logs rule %s but returns `%s` which does not depend on option %s (depends on: %s)"
                   % (sorted(x[0] for x in names), expr_str(f, n["i"]), sorted(missing), sorted(V | C) or "no option"))
        elif foreign:
            r.fail(inst, loc, "logs rule %s but the returned value `%s` also carries option(s) %s"
                   % (sorted(x[0] for x in names), expr_str(f, n["i"]), sorted(foreign)))
        else:
            r.ok(inst, loc, "log %s -> %s" % (sorted(N), expr_str(f, n["i"])[:60]))
    r.floor(230, "attributed returns")
    r.note("returns=%d attributed-to-IARF-option=%d" % (nrets, attributed))
    if nrets < 290:
        r.require(False, "do_space has only %d returns (floor 290)" % nrets)


def rule_single_path(ctx):
    common_space.single_path(ctx, ctx.rule("single-path", "do_space <- only do_space_ensured (through ensure_force_space, which "
                                           "only ORs IARF_ADD under PCF_FORCE_SPACE); consumers = space_text/space_needed/space_col_align"))


def rule_apply(ctx):
    db = ctx.db
    r = ctx.rule("apply", "appliers switch over all four IARF values; FORCE arm adds exactly min_sp, REMOVE arm adds nothing; "
                 "neither reads an original-column accessor")
    ORIG = ("GetOrigCol", "GetOrigColEnd", "GetOrigPrevSp", "GetOrigLine")
    for fname, colvar in (("space_text", "column"), ("space_needed", None), ("space_col_align", "coldiff")):
        g = db.fn(fname, file="src/space.cpp")
        sw = []
        for bid, blk in g.blocks.items():
            t = blk.get("term")
            if t and t["k"] == "SwitchStmt":
                c = t.get("c")
                # the scrutinee must be the decision: do_space_ensured(...) directly or a local defined from it
                src = set(x.get("c") for x in walk(g, c) if x["k"] == "call")
                if "do_space_ensured" not in src:
                    cn = g.nodes.get(c)
                    if cn and cn["k"] == "ref" and cn.get("d") == "lv":
                        rdg = ReachingDefs(g, db)
                        for info in rdg.at(c, (cn["n"], cn.get("dl"))):
                            rhs = rdg.rhs_of(info)
                            if rhs is not None:
                                src |= set(x.get("c") for x in walk(g, rhs) if x["k"] == "call")
                if "do_space_ensured" in src:
                    sw.append(bid)
        r.require(len(sw) == 1, "%s: expected exactly one switch over the do_space_ensured() decision, found %d" % (fname, len(sw)))
        bid = sw[0]
        join = g.ipdom_structural().get(bid)
        arms = {}
        covered = set()
        for s in g.succ[bid]:
            if s < 0:
                continue
            lab = g.blocks[s].get("lab", {})
            for c in lab.get("case", ()):
                covered.add(c)
                arms[c] = s
        r.check(covered >= {"IARF_IGNORE", "IARF_ADD", "IARF_REMOVE", "IARF_FORCE"}, "%s/switch-covers-iarf" % fname,
                db.loc(g, g.blocks[bid]["term"]["l"]), "switch over the spacing decision misses %s" %
                sorted({"IARF_IGNORE", "IARF_ADD", "IARF_REMOVE", "IARF_FORCE"} - covered))

        def arm_blocks(start, stops):
            seen = set()
            work = [start]
            while work:
                b = work.pop()
                if b in seen or b == join or b in stops or b == g.exit:
                    continue
                seen.add(b)
                work.extend(s for s in g.succ[b] if s >= 0)
            return seen
        for val in ("IARF_FORCE", "IARF_REMOVE"):
            if val not in arms:
                continue
            other_starts = set(s for c, s in arms.items() if s != arms[val])
            blocks = arm_blocks(arms[val], other_starts - {arms[val]})
            origs = []
            stores = []
            rets = []
            for b in blocks:
                for n in g.blocks[b]["n"]:
                    r.seen()
                    if in_macro(n, "LOG_FMT"):
                        continue
                    if n["k"] == "call" and (n.get("c") or "").split("::")[-1] in ORIG:
                        origs.append(n)
                    if n["k"] in ("asg",) or (n["k"] == "un" and n["op"] in ("++", "--")):
                        t = g.nodes.get(n["a"][0])
                        if t and t["k"] == "ref" and t["n"] == colvar:
                            stores.append(n)
                    if n["k"] == "ret":
                        rets.append(n)
            inst = "%s/%s-arm" % (fname, val)
            loc = db.loc(g, g.blocks[arms[val]]["n"][0] if g.blocks[arms[val]]["n"] else g.blocks[bid]["term"]["l"])
            r.check(not origs, inst + "/no-orig-col", loc,
                    "the %s arm reads an original-column accessor: %s" % (val, [expr_str(g, o["i"]) for o in origs]))
            if val == "IARF_REMOVE":
                if colvar:
                    r.check(not stores, inst + "/adds-nothing", loc, "the REMOVE arm changes `%s`: %s" % (colvar, [expr_str(g, s["i"]) for s in stores]))
                else:
                    # literal 0, or literal 1 on the arm that is controlled by the word/word fusion test (the exception the
                    # property itself makes: "two words")
                    def fusion_arm(x):
                        cs = " ".join(expr_str(g, cn) for cn, pol in g.guard_conds(g.nblock[x["i"]]) if cn is not None and pol is True)
                        return "IsKw2(first->GetStr()[first->Len() - 1])" in cs and "IsKw1(second->GetStr()[0])" in cs
                    okr = rets and all(g.nodes[x["a"][0]]["k"] == "int" and (g.nodes[x["a"][0]]["v"] == 0 or (g.nodes[x["a"][0]]["v"] == 1 and fusion_arm(x))) for x in rets) \
                        and any(g.nodes[x["a"][0]]["v"] == 0 for x in rets)
                    r.check(okr, inst + "/adds-nothing", loc, "the REMOVE arm does not return literal 0 (or 1 under the word/word test)")
            else:
                if fname == "space_text":
                    good = len(stores) == 1 and stores[0]["k"] == "asg" and stores[0]["op"] == "+=" and \
                        expr_str(g, stores[0]["a"][1]) == "min_sp"
                    r.check(good, inst + "/adds-exactly-min_sp", loc, "the FORCE arm must be exactly `column += min_sp`, found %s"
                            % [expr_str(g, s["i"]) for s in stores])
                elif fname == "space_col_align":
                    good = len(stores) == 1 and stores[0]["k"] == "un" and stores[0]["op"] == "++"
                    r.check(good, inst + "/adds-one", loc, "the ADD/FORCE arm must be exactly `coldiff++`, found %s"
                            % [expr_str(g, s["i"]) for s in stores])
                else:
                    okr = rets and all("min_sp" in expr_str(g, x["i"]) and "max" in expr_str(g, x["i"]) for x in rets)
                    r.check(okr, inst + "/returns-min_sp", loc, "the ADD/FORCE arm must return max(1, min_sp)")
    r.floor(12)


def rule_qt_override(ctx):
    """the Qt SIGNAL/SLOT override changes the values of eleven sp_ options while a macro is processed; the value applied
    elsewhere is the configured one only if the override is saved once and restored completely (shared with C11)"""
    from . import c11
    c11.rule_qt_restore(ctx)


def rule_force_only_when_fusing(ctx):
    from .common_fusion import fusion_table
    r = ctx.rule("force-only-when-fusing", "converse of C02.fusion-table: for every language and every ordered pair of its punctuators that, written "
                 "without a blank, still lexes as the same two tokens, space_text()'s safety block cannot set PCF_FORCE_SPACE (folded over the "
                 "punctuator table, helpers of space_text() evaluated with the same bindings): a configured remove is overridden only where the "
                 "property allows it")
    fusion_table(ctx, r, converse=True)
    r.floor(1)


def rule_writer_counts_like_the_planner(ctx):
    """space_text() plans a gap as `column += pc->Len()` - one column per code point - and output_text() pads up to the planned
    column of the next token from cpd.column.  If the writer counts a character differently, the padding shrinks or grows by the
    difference and a forced / added blank disappears"""
    db = ctx.db
    r = ctx.rule("writer-counts-like-the-planner", "add_char() moves cpd.column only by `++` for an ordinary character, to 1 at a line break and to "
                 "next_tab_column(cpd.column) for a tab; space_text() advances its column by pc->Len()")
    a = db.fn("add_char", file="src/output.cpp")
    ups = [n for n in a.all_nodes() if n["k"] in ("asg", "un") and n.get("a") and expr_str(a, n["a"][0]) == "cpd.column"]
    r.require(len(ups) >= 4, "add_char: only %d updates of cpd.column" % len(ups))
    allowed = ("cpd.column++", "++cpd.column", "cpd.column = 1", "cpd.column = next_tab_column(cpd.column)", "cpd.column += 1", "cpd.column = cpd.column + 1")
    for n in ups:
        r.seen()
        r.check(expr_str(a, n["i"]) in allowed, "add_char/%s" % expr_str(a, n["i"])[:40], db.loc(a, n),
                "add_char() advances the output column by `%s`; space_text() counted one column per code point for the same text, so the "
                "blanks planned behind it are written short or long" % expr_str(a, n["i"]))
    sp = db.fn("space_text", file="src/space.cpp")
    adv = [n for n in sp.all_nodes() if n["k"] == "asg" and expr_str(sp, n["i"]) == "column += pc->Len()"]
    r.check(len(adv) >= 1, "space_text/advances-by-Len", db.loc(sp, sp.l0), "space_text() no longer advances its column by pc->Len()")
    r.floor(5)


RULES = [rule_name_value, rule_single_path, rule_apply, rule_qt_override, rule_force_only_when_fusing, rule_writer_counts_like_the_planner]
