"""C18 Indentation reflects block nesting - NARROW claim: only the pipeline-order clause.

Decided: brace_cleanup() (levels) precedes indent_text(); space_text() precedes the first indent_text(); inside the
final loop indent_text() runs before the change counter is sampled, every structure-changing call (line splitting,
newline passes) sits behind `old_changes = cpd.changes` so that it forces another iteration through the exit test
`old_changes != cpd.changes`; between the loop and output_text() no call can create/delete/move chunks or newlines.
NOT decided: the column arithmetic of indent_text() (the actual promise of the property).
"""
import re

from ..facts import expr_str, walk, in_macro
from .common_io import UNC
from .c20 import _raisers
from ..effects import effect_sites


def rule_pipeline_order(ctx):
    db = ctx.db
    r = ctx.rule("pipeline-order", "uncrustify_file: uncrustify_start (brace_cleanup) < space_text < indent_text < output_text; in the last loop every "
                 "call that can change chunk structure after indent_text() is followed by the `old_changes != cpd.changes` exit test that "
                 "re-runs indent_text(); nothing that changes structure runs between that loop and output_text()")
    u = db.fn("uncrustify_file", file=UNC)
    r.names(u, "old_changes")
    s = db.fn("uncrustify_start", file=UNC)
    bc = db.calls_in(s, "brace_cleanup")
    r.check(len(bc) == 1, "uncrustify_start/brace_cleanup", db.loc(s, s.l0), "uncrustify_start does not call brace_cleanup exactly once")
    st = db.calls_in(u, "uncrustify_start")
    sp = db.calls_in(u, "space_text")
    ind = db.calls_in(u, "indent_text")
    out = [n for n in db.calls_in(u, "output_text")]
    r.require(len(st) == 1 and sp and ind and out, "uncrustify_file lacks uncrustify_start/space_text/indent_text/output_text")
    first_ind = min(ind, key=lambda n: n["l"])
    last_ind = max(ind, key=lambda n: n["l"])
    r.check(all(u.dominates(st[0]["i"], n["i"]) for n in ind), "levels-before-indent", db.loc(u, st[0]), "indent_text can run before uncrustify_start (brace levels)")
    r.check(any(u.dominates(x["i"], first_ind["i"]) for x in sp), "space-before-indent", db.loc(u, first_ind), "no space_text() call dominates the first indent_text()")
    r.check(all(u.dominates(last_ind["i"], o["i"]) for o in out), "indent-before-output", db.loc(u, last_ind), "output_text is reachable without the final indent_text()")
    # structure-changing callees
    eff = set()
    for f, n, kind, d in effect_sites(db):
        eff.add(f.key)
    if db._callers is None:
        db._build_cg()
    changed = True
    while changed:
        changed = False
        for f in db.funcs.values():
            if f.key not in eff and any(t in eff for t in db._callees.get(f.key, ())):
                eff.add(f.key)
                changed = True
    eff |= _raisers(db)          # newline-count changes alter the line structure too
    from .c11 import gstate
    gs = gstate(db)
    loops = [(h, body) for h, body, backs in u.loops() if u.nblock[last_ind["i"]] in body]
    r.require(loops, "the final indent loop was not found")
    h, body = min(loops, key=lambda x: len(x[1]))
    snap = [n for b in body for n in u.blocks[b]["n"] if n["k"] == "asg" and expr_str(u, n["i"]) == "old_changes = cpd.changes"]
    r.check(len(snap) == 1 and u.dominates(last_ind["i"], snap[0]["i"]), "loop/snapshot-after-indent", db.loc(u, last_ind), "the change counter is not sampled after indent_text()")
    exit_ok = any(expr_str(u, (u.blocks[b].get("term") or {}).get("lc", -1)) == "old_changes != cpd.changes" for b in body)
    r.check(exit_ok, "loop/exit-test", db.loc(u, last_ind), "the loop no longer repeats while old_changes != cpd.changes")
    n_struct = 0
    for b in body:
        for n in u.blocks[b]["n"]:
            if n["k"] != "call" or in_macro(n, "LOG_FMT") or n["i"] == last_ind["i"]:
                continue
            if not any(t in eff for t in gs.call_targets(u, n)):
                continue
            n_struct += 1
            r.seen()
            before = u.dominates(n["i"], last_ind["i"])
            after_snap = bool(snap) and u.dominates(snap[0]["i"], n["i"])
            r.check(before or after_snap, "loop/%s" % n["c"], db.loc(u, n), "%s() can change the chunk structure after indent_text() but before the change counter is "
                    "sampled: its effect never triggers a re-indent" % n["c"])
    # mark_change is what bumps cpd.changes: the splitters call MARK_CHANGE - assumed (C20/C04 cover the newline passes)
    # between the loop and output_text
    for o in out:
        cs = [(expr_str(u, cn), pol) for cn, pol in u.guard_conds(u.nblock[o["i"]]) if cn is not None]
        seenb = set()
        work = [s2 for b in body for s2 in u.succ[b] if s2 >= 0 and s2 not in body]
        between = []
        while work:
            b = work.pop()
            if b in seenb:
                continue
            seenb.add(b)
            stop = False
            for n in u.blocks[b]["n"]:
                if n["i"] == o["i"]:
                    stop = True
                    break
                if n["k"] == "call" and not in_macro(n, "LOG_FMT"):
                    between.append(n)
            if not stop:
                work.extend(s2 for s2 in u.succ[b] if s2 >= 0)
        for n in between:
            if n.get("c") in ("output_text",):
                continue
            if any(t in eff for t in gs.call_targets(u, n)):
                r.seen()
                r.check(n.get("c") in ("make_folders",), "after-loop/%s" % n["c"], db.loc(u, n), "%s() runs after the last indent_text() and can create, delete or move chunks" % n["c"])
        break
    r.note("structure-changing calls in the final loop: %d" % n_struct)
    r.floor(8)


ORIG_READERS = ("Chunk::GetOrigCol", "Chunk::GetOrigColEnd", "Chunk::GetOrigPrevSp")


def _is_logging(f, n):
    """the read is an argument of a diagnostic: under a `log_sev_on(..)` fact, or inside fprintf/log_fmt"""
    for cn, pol in f.guard_conds(f.nblock[n["i"]]):
        if cn is not None and pol is True and expr_str(f, cn).startswith("log_sev_on("):
            return True
    ps = f.parents()
    top = n["i"]
    while ps.get(top):
        top = ps[top][0]
        t = f.nodes[top]
        if t["k"] == "call" and t.get("c") in ("fprintf", "log_fmt", "log_flags"):
            return True
    return False


def _comment_guarded(f, n):
    """a dominating fact says that the chunk whose original position is read is a comment"""
    recv = expr_str(f, n.get("o")) if "o" in n else ""
    for cn, pol in f.guard_conds(f.nblock[n["i"]]):
        if cn is None or pol is not True:
            continue
        s = expr_str(f, cn)
        if s in ("%s->IsComment()" % recv, "is_comment", "%s->IsSingleLineComment()" % recv):
            return True
    return False


def rule_orig_col_independence(ctx):
    """C18, last sentence: the original indentation of a statement's first line has no influence on where the line is
    placed.  Decided part: with every option at its default, no read of an original-position accessor in the indent
    pass is live except on comments, same-line spacing and three reviewed sites; every other read sits behind an
    option whose default switches it off (indent_ignore_*, *_preserve_*, `== -1`)."""
    db = ctx.db
    r = ctx.rule("orig-col-independence", "every non-diagnostic read of Chunk::GetOrigCol/GetOrigColEnd/GetOrigPrevSp in code reachable from "
                 "indent_text() is unreachable with all options at their defaults (constant folding of the dominating option tests along "
                 "every call chain), or reads the position of a chunk that a dominating test shows to be a comment, or lies in a function "
                 "reached only from such sites, or is a reviewed exception; so the first token of a code line is placed independently of "
                 "its original column unless an option asks for it")
    from ..effects import option_defaults, Liveness
    ind = db.fn("indent_text", file="src/indent.cpp")
    dv, consts = option_defaults(db)
    env = {k: {v} for k, v in dv.items() if isinstance(v, int)}
    r.require(len(env) >= 800, "only %d options have a foldable default" % len(env))
    lv = Liveness(db, env, ind)
    reach = db.reachable_from([ind])
    # comment-only functions: every live call site passes a chunk under a comment fact, or sits in a comment-only function
    sites = []
    for k in sorted(reach):
        f = db.funcs[k]
        for n in f.all_nodes():
            if n["k"] == "call" and n.get("c") in ORIG_READERS:
                sites.append((f, n))
    r.require(len(sites) >= 100, "only %d reads of the original-position accessors found under indent_text()" % len(sites))
    comment_only = set()
    changed = True
    while changed:
        changed = False
        for k in reach:
            if k in comment_only or k == ind.key:
                continue
            cs = [(g, m) for (g, m) in lv.sites.get(k, ()) if g.key in lv.alive and not lv.site_dead(g, m)[0]]
            if cs and all(g.key in comment_only or _call_passes_comment(g, m) for g, m in cs):
                comment_only.add(k)
                changed = True
    r.note("comment-only functions (derived): %s" % ", ".join(sorted(db.funcs[k].qn for k in comment_only)))
    cnt = {}
    nlog = ndead = ncomment = 0
    for f, n in sites:
        r.seen()
        if _is_logging(f, n):
            nlog += 1
            continue
        recv = expr_str(f, n.get("o")) if "o" in n else "?"
        ps = f.parents()
        top = n["i"]
        while ps.get(top):
            top = ps[top][0]
        key = "%s/%s" % (f.qn, re.sub(r"\s+", " ", expr_str(f, top))[:60])
        cnt[key] = cnt.get(key, 0) + 1
        inst = key if cnt[key] == 1 else "%s#%d" % (key, cnt[key])
        loc = db.loc(f, n)
        ok, why = lv.is_alive(f, n)
        if not ok:
            ndead += 1
            r.ok(inst, loc, "dead under the default configuration: %s" % why)
            continue
        if f.key in comment_only or _comment_guarded(f, n):
            ncomment += 1
            r.ok(inst, loc, "position of a comment chunk")
            continue
        r.fail(inst, loc, "%s of `%s` in %s is live with every option at its default and is not the position of a comment: the original "
               "column can reach the output column: `%s`" % (n["c"], recv, f.qn, db.src_line(f.file, n["l"])[:90]))
    # checked preconditions of the reviewed exceptions
    #  (1) ParsingFrame::push stores the original column of the opener; it must only ever be read by diagnostics
    for g, m in db.callers_of("ParenStackEntry::GetOpenCol"):
        r.check(_is_logging(g, m), "GetOpenCol/diagnostic-only/%s" % g.qn, db.loc(g, m), "ParenStackEntry::GetOpenCol() (the opener's original column) is "
                "read outside a diagnostic in %s" % g.qn)
    #  (2) indent_text records sql_orig_col; every read of it must be dead under the defaults
    for n in ind.nodes.values():
        if n["k"] == "ref" and n.get("n") == "sql_orig_col" and n.get("d") == "lv":
            ps = ind.parents().get(n["i"], [])
            if any(ind.nodes[p]["k"] == "asg" and ind.nodes[p]["a"][0] == n["i"] for p in ps):
                continue
            if _is_logging(ind, n):
                continue
            ok, why = lv.is_alive(ind, n)
            r.check(not ok, "sql_orig_col/read-dead", db.loc(ind, n), "sql_orig_col is read on a path that is live under the default configuration")
    #  (3) align_to_column: almod leaves SHIFT only under the fact that the chunk is a comment
    atc = db.fn("align_to_column", file="src/indent.cpp")
    nasg = 0
    for n in atc.nodes.values():
        if n["k"] == "asg" and expr_str(atc, n["a"][0]) == "almod":
            nasg += 1
            conds = [(expr_str(atc, cn), pol) for cn, pol in atc.guard_conds(atc.nblock[n["i"]]) if cn is not None]
            r.check(("pc->IsComment()", True) in conds, "align_to_column/almod-only-for-comments", db.loc(atc, n),
                    "align_to_column leaves the SHIFT mode for a chunk that no dominating test shows to be a comment")
    r.require(nasg >= 1, "align_to_column no longer assigns almod")
    r.note("reads: %d diagnostic, %d dead under defaults, %d on comments" % (nlog, ndead, ncomment))
    r.floor(30)


def _call_passes_comment(g, m):
    """call site m in g passes (as first argument) a chunk that a dominating fact shows to be a comment"""
    a = m.get("a") or []
    if not a:
        return False
    x = expr_str(g, a[0])
    for cn, pol in g.guard_conds(g.nblock[m["i"]]):
        if cn is not None and pol is True and expr_str(g, cn) in ("%s->IsComment()" % x, "%s->IsSingleLineComment()" % x):
            return True
    return False


RULES = [rule_pipeline_order, rule_orig_col_independence]
