"""C18 Indentation reflects block nesting - NARROW claim: only the pipeline-order clause.

Decided: brace_cleanup() (levels) precedes indent_text(); space_text() precedes the first indent_text(); inside the
final loop indent_text() runs before the change counter is sampled, every structure-changing call (line splitting,
newline passes) sits behind `old_changes = cpd.changes` so that it forces another iteration through the exit test
`old_changes != cpd.changes`; between the loop and output_text() no call can create/delete/move chunks or newlines.
NOT decided: the column arithmetic of indent_text() (the actual promise of the property).
"""
from ..facts import expr_str, walk, in_macro
from .common_io import UNC
from .c20 import _raisers
from ..effects import effect_sites


def rule_pipeline_order(ctx):
    db = ctx.db
    r = ctx.rule("pipeline-order", "uncrustify_file: uncrustify_start (brace_cleanup) < space_text < indent_text < output_text; in the last loop every "
                 "call that can change chunk structure after indent_text() is followed by the `old_changes != cpd.changes` exit test that "
                 "re-runs indent_text(); nothing that changes structure runs between that loop and output_text()")
    u = db.fn("uncrustify_file", file=UNC)
    s = db.fn("uncrustify_start", file=UNC)
    bc = db.calls_in(s, "brace_cleanup")
    r.check(len(bc) == 1, "uncrustify_start/brace_cleanup", db.loc(s, s.l0), "uncrustify_start does not call brace_cleanup exactly once")
    st = db.calls_in(u, "uncrustify_start")
    sp = db.calls_in(u, "space_text")
    ind = db.calls_in(u, "indent_text")
    out = [n for n in db.calls_in(u, "output_text")]
    r.require(len(st) == 1 and sp and ind and out, "uncrustify_file lacks uncrustify_start/space_text/indent_text/output_text")
    first_ind = min(ind, key=lambda n: n["l"])
    last_ind = max(ind, key=lambda n: n["l"])
    r.check(all(u.dominates(st[0]["i"], n["i"]) for n in ind), "levels-before-indent", db.loc(u, st[0]), "indent_text can run before uncrustify_start (brace levels)")
    r.check(any(u.dominates(x["i"], first_ind["i"]) for x in sp), "space-before-indent", db.loc(u, first_ind), "no space_text() call dominates the first indent_text()")
    r.check(all(u.dominates(last_ind["i"], o["i"]) for o in out), "indent-before-output", db.loc(u, last_ind), "output_text is reachable without the final indent_text()")
    # structure-changing callees
    eff = set()
    for f, n, kind, d in effect_sites(db):
        eff.add(f.key)
    if db._callers is None:
        db._build_cg()
    changed = True
    while changed:
        changed = False
        for f in db.funcs.values():
            if f.key not in eff and any(t in eff for t in db._callees.get(f.key, ())):
                eff.add(f.key)
                changed = True
    eff |= _raisers(db)          # newline-count changes alter the line structure too
    from .c11 import gstate
    gs = gstate(db)
    loops = [(h, body) for h, body, backs in u.loops() if u.nblock[last_ind["i"]] in body]
    r.require(loops, "the final indent loop was not found")
    h, body = min(loops, key=lambda x: len(x[1]))
    snap = [n for b in body for n in u.blocks[b]["n"] if n["k"] == "asg" and expr_str(u, n["i"]) == "old_changes = cpd.changes"]
    r.check(len(snap) == 1 and u.dominates(last_ind["i"], snap[0]["i"]), "loop/snapshot-after-indent", db.loc(u, last_ind), "the change counter is not sampled after indent_text()")
    exit_ok = any(expr_str(u, (u.blocks[b].get("term") or {}).get("lc", -1)) == "old_changes != cpd.changes" for b in body)
    r.check(exit_ok, "loop/exit-test", db.loc(u, last_ind), "the loop no longer repeats while old_changes != cpd.changes")
    n_struct = 0
    for b in body:
        for n in u.blocks[b]["n"]:
            if n["k"] != "call" or in_macro(n, "LOG_FMT") or n["i"] == last_ind["i"]:
                continue
            if not any(t in eff for t in gs.call_targets(u, n)):
                continue
            n_struct += 1
            r.seen()
            before = u.dominates(n["i"], last_ind["i"])
            after_snap = bool(snap) and u.dominates(snap[0]["i"], n["i"])
            r.check(before or after_snap, "loop/%s" % n["c"], db.loc(u, n), "%s() can change the chunk structure after indent_text() but before the change counter is "
                    "sampled: its effect never triggers a re-indent" % n["c"])
    # mark_change is what bumps cpd.changes: the splitters call MARK_CHANGE - assumed (C20/C04 cover the newline passes)
    # between the loop and output_text
    for o in out:
        cs = [(expr_str(u, cn), pol) for cn, pol in u.guard_conds(u.nblock[o["i"]]) if cn is not None]
        seenb = set()
        work = [s2 for b in body for s2 in u.succ[b] if s2 >= 0 and s2 not in body]
        between = []
        while work:
            b = work.pop()
            if b in seenb:
                continue
            seenb.add(b)
            stop = False
            for n in u.blocks[b]["n"]:
                if n["i"] == o["i"]:
                    stop = True
                    break
                if n["k"] == "call" and not in_macro(n, "LOG_FMT"):
                    between.append(n)
            if not stop:
                work.extend(s2 for s2 in u.succ[b] if s2 >= 0)
        for n in between:
            if n.get("c") in ("output_text",):
                continue
            if any(t in eff for t in gs.call_targets(u, n)):
                r.seen()
                r.check(n.get("c") in ("make_folders",), "after-loop/%s" % n["c"], db.loc(u, n), "%s() runs after the last indent_text() and can create, delete or move chunks" % n["c"])
        break
    r.note("structure-changing calls in the final loop: %d" % n_struct)
    r.floor(8)


RULES = [rule_pipeline_order]
