"""C04.effects and its restrictions C02.effects / C03.effects / C07.effects (analysis A5, see uv/effects.py)."""
import re

from ..facts import expr_str, walk, in_macro
from ..effects import effect_sites, option_defaults, Liveness

FAMILIES = r"(mod_|cmt_|sp_cmt_cpp_|string_replace_tab_chars|pp_ignore_define_body|disable_processing_nl_cont)"
HDR_FALSE = ("!cpd.func_hdr.data.empty()", "!cpd.class_hdr.data.empty()", "!cpd.oc_msg_hdr.data.empty()",
             "!cpd.file_hdr.data.empty()", "!cpd.file_ftr.data.empty()")
_cache = {}


def liveness(db, families):
    key = (id(db), families)
    if key not in _cache:
        dv, consts = option_defaults(db)
        env = {}
        for k, v in dv.items():
            if re.match(families, k) and isinstance(v, int):
                env[k] = {v}
        u = db.fn("uncrustify_file", file="src/uncrustify.cpp")
        _cache[key] = (Liveness(db, env, u, cut_calls=("uncrustify_start",), extra_false=HDR_FALSE), env)
    return _cache[key]


def _newline_typed(f, n, x):
    """the chunk expression x is a newline by a dominating fact that no assignment to x invalidates"""
    pats = ("%s->IsNewline()" % x, "%s->Is(CT_NEWLINE)" % x, "%s->Is(CT_NL_CONT)" % x)
    for cn, pol in f.guard_conds(f.nblock[n["i"]]):
        if cn is None or pol is not True:
            continue
        s = expr_str(f, cn)
        hit = s in pats or (s.endswith("->IsNewline()") and s.startswith(x + " = "))
        if not hit:
            continue
        # no assignment to x can execute between the test and the site (searching forward from the test, stopping at
        # the site and at a re-evaluation of the test)
        if re.match(r"^\w+$", x) and cn in f.nblock and not s.startswith(x + " = "):
            if _reassigned_between(f, cn, n["i"], x):
                continue
        return True
    return False


def _reassigned_between(f, cn, site, x):
    """is there a path test -> assignment to x -> site that does not re-evaluate the test?"""
    from collections import deque
    b0, p0 = f.nblock[cn], f.npos[cn] + 1
    seen = set()
    dq = deque([(b0, p0, False)])
    first = True
    while dq:
        b, p, dirty = dq.popleft()
        if not first and (b, dirty) in seen:
            continue
        if not first:
            seen.add((b, dirty))
        first = False
        stop = False
        for m in f.blocks[b]["n"][p:]:
            if m["i"] == cn:
                stop = True
                break
            if m["i"] == site:
                if dirty:
                    return True
                stop = True
                break
            if m["k"] == "asg" and expr_str(f, m["a"][0]) == x:
                dirty = True
        if stop:
            continue
        for s2 in f.succ[b]:
            if s2 >= 0:
                dq.append((s2, 0, dirty))
    return False


def _creates_blank(f, n):
    """CopyAndAdd* of a local Chunk object that was typed newline / nl-cont / space only, or filled by setup_newline_add"""
    o = f.nodes.get(n.get("o"))
    if o is None or o["k"] != "ref" or o.get("d") != "lv":
        return False
    v = o["n"]
    types = []
    for m in f.all_nodes():
        if m["k"] == "call" and (m.get("c") or "").endswith("Chunk::SetType") and expr_str(f, m.get("o")) == v:
            types.append(expr_str(f, m["a"][0]))
        if m["k"] == "call" and m.get("c") == "setup_newline_add" and any(expr_str(f, a) in ("&" + v, v) for a in m.get("a", ())):
            types.append("CT_NEWLINE")
    return bool(types) and all(t in ("CT_NEWLINE", "CT_NL_CONT", "CT_SPACE") for t in types)


def effects_rule(ctx, families, text, kinds=("TEXT", "CREATE", "DELETE", "MOVE"), site_filter=None, floor_sites=100):
    db = ctx.db
    r = ctx.rule("effects", text)
    lv, env = liveness(db, families)
    r.require(len(env) >= 40, "only %d options of the gating families have a foldable default" % len(env))
    S = effect_sites(db)
    r.require(len(S) >= floor_sites, "only %d token-visible effect sites found (TEXT/CREATE/DELETE/MOVE)" % len(S))
    cnt = {}
    alive = dead = 0
    for f, n, kind, detail in sorted(S, key=lambda x: (x[0].file, x[1]["l"])):
        if kind not in kinds:
            continue
        if site_filter is not None and not site_filter(f, n, kind, detail):
            continue
        r.seen()
        ok, why = lv.is_alive(f, n)
        key = "%s/%s/%s" % (f.qn, kind, detail[:30])
        cnt[key] = cnt.get(key, 0) + 1
        inst = key if cnt[key] == 1 else "%s#%d" % (key, cnt[key])
        loc = db.loc(f, n)
        if not ok:
            dead += 1
            r.ok(inst, loc, "dead under the default configuration: %s" % why)
            continue
        alive += 1
        if f.qn == "uncrustify_end":
            r.ok(inst, loc, "list teardown after output")
            continue
        if kind in ("DELETE", "MOVE"):
            x = detail if kind == "DELETE" else (expr_str(f, n["a"][0]) if n.get("a") else "")
            if _newline_typed(f, n, x):
                r.ok(inst, loc, "acts on a chunk that is a newline by a dominating test")
                continue
        if kind == "CREATE" and _creates_blank(f, n):
            r.ok(inst, loc, "inserts a newline / blank chunk")
            continue
        if kind == "TEXT":
            rhs = f.nodes.get(n["a"][0]) if n.get("a") else None
            if rhs is not None and rhs["k"] == "str" and rhs["v"] in ("\n", "\\\n", ""):
                r.ok(inst, loc, "newline chunk text")
                continue
        r.fail(inst, loc, "%s of `%s` in %s is reachable from uncrustify_file() with every gating option (%s) at its default and does not act on a "
               "newline/blank chunk: `%s`" % (kind, detail, f.qn, families, db.src_line(f.file, n["l"])[:80]))
    r.note("effect sites: %d dead under defaults, %d alive and classified" % (dead, alive))
    r.floor(floor_sites // 2)
    return r


def newline_crossing_rule(ctx):
    """A line break may be removed, or a token moved to its other side, only if that cannot pull the following token into
    a `//` comment or across the end of a preprocessor directive: Chunk::SafeToDeleteNl() is the repository's test for
    exactly that (previous chunk is not CT_COMMENT_CPP, both neighbours on the same side of a directive)."""
    db = ctx.db
    r = ctx.rule("newline-crossing", "every Chunk::Delete(X) / Y->Swap(X) whose operand X is a newline by a dominating fact is also dominated "
                 "by X->SafeToDeleteNl() (not after a // comment, not at the end of a directive), reviewed exceptions aside; SafeToDeleteNl "
                 "itself tests the previous chunk for CT_COMMENT_CPP and IsSamePreproc of both neighbours")
    n_nl = 0
    cnt = {}
    for f, n, kind, detail in sorted(effect_sites(db), key=lambda x: (x[0].file, x[1]["l"])):
        if kind == "DELETE":
            x = detail
        elif kind == "MOVE" and (n.get("c") or "").endswith("::Swap"):
            x = expr_str(f, n["a"][0]) if n.get("a") else ""
        else:
            continue
        cs = [(expr_str(f, cn), pol) for cn, pol in f.guard_conds(f.nblock[n["i"]]) if cn is not None]
        is_nl = any(pol is True and (c in ("%s->IsNewline()" % x, "%s->Is(CT_NEWLINE)" % x) or (c.startswith(x + " = ") and c.endswith("->IsNewline()"))) for c, pol in cs)
        if not is_nl:
            continue
        n_nl += 1
        r.seen()
        key = "%s/%s(%s)" % (f.qn, (n.get("c") or "").split("::")[-1], x)
        cnt[key] = cnt.get(key, 0) + 1
        inst = key if cnt[key] == 1 else "%s#%d" % (key, cnt[key])
        safe = ("%s->SafeToDeleteNl()" % x, True) in cs or ("!%s->SafeToDeleteNl()" % x, False) in cs
        r.check(safe, inst, db.loc(f, n), "%s of the line break `%s` in %s is not guarded by %s->SafeToDeleteNl(): if the break follows a `//` comment "
                "or ends a directive the next token is swallowed by the comment / joins the directive line" % (kind.lower(), x, f.qn, x))
    r.require(n_nl >= 14, "only %d delete/swap sites act on a chunk known to be a newline" % n_nl)
    g = [h for h in db.fns("Chunk::SafeToDeleteNl")]
    r.require(g, "Chunk::SafeToDeleteNl not found")
    g = g[0]
    body = " ".join(expr_str(g, m["i"]) for m in g.all_nodes() if m["k"] in ("ret", "decl")) + " " + \
        " ".join(expr_str(g, (blk.get("term") or {}).get("c")) for blk in g.blocks.values() if blk.get("term") and (blk.get("term") or {}).get("c") is not None)
    r.check("Is(CT_COMMENT_CPP)" in body and "IsSamePreproc(" in body and "GetPrev(" in body, "SafeToDeleteNl/tests-comment-and-preproc", db.loc(g, g.l0),
            "Chunk::SafeToDeleteNl no longer tests the previous chunk for CT_COMMENT_CPP and the neighbours with IsSamePreproc: `%s`" % body[:160])
    rf = [m for m in g.all_nodes() if m["k"] == "ret" and expr_str(g, m["i"]) == "return false"]
    okrf = any(("tmp->Is(CT_COMMENT_CPP)", True) in [(expr_str(g, cn), pol) for cn, pol in g.guard_conds(g.nblock[m["i"]]) if cn is not None] for m in rf)
    r.check(okrf, "SafeToDeleteNl/comment-means-unsafe", db.loc(g, g.l0), "a preceding // comment no longer makes SafeToDeleteNl() false")
    r.floor(14)
    return r


def move_across_break_rule(ctx):
    """newlines_chunk_pos() moves an operator/comma to the other side of a line break (pos_* = lead/trail).  Inside or next
    to a preprocessor directive that moves a token out of its directive or into the next one: every such move is made
    only when the neighbour on the far side was shown not to lie in a directive."""
    db = ctx.db
    r = ctx.rule("move-across-break", "every MoveAfter() in newlines_chunk_pos() is dominated by the fact that `prev` is not PCF_IN_PREPROC, and "
                 "the lead-case move additionally by `next2->Is(CT_PREPROC)` false; the brace hoist of newline_del_between() by "
                 "start->IsSamePreproc(end); the brace push-down of newline_add_between() and every pair handed to these functions use no "
                 "navigation that skips preprocessor lines when the partner can be an open brace")
    f = db.fn("newlines_chunk_pos", file="src/newlines/chunk_pos.cpp")
    r.names(f, "pc", "prev", "next")
    mv = [n for n in f.all_nodes() if n["k"] == "call" and n.get("c") == "Chunk::MoveAfter"]
    r.require(len(mv) >= 2, "newlines_chunk_pos: %d MoveAfter calls" % len(mv))
    for n in mv:
        r.seen()
        cs = [(expr_str(f, cn), pol) for cn, pol in f.guard_conds(f.nblock[n["i"]]) if cn is not None]
        flat = []
        for c, pol in cs:
            flat.append((c, pol))
        arg = expr_str(f, n["a"][0]) if n.get("a") else "?"
        ok = ("prev->TestFlags(PCF_IN_PREPROC)", False) in flat or ("!prev->TestFlags(PCF_IN_PREPROC)", True) in flat
        r.check(ok, "newlines_chunk_pos/MoveAfter(%s)/not-into-directive" % arg, db.loc(f, n),
                "the token is moved across a line break without the test that its neighbour is outside a preprocessor directive "
                "(IsSamePreproc compares only the flag, not the directive): the token can leave its #define or land in front of the next '#'")
        if arg == "next":
            r.check(("next2->Is(CT_PREPROC)", False) in flat, "newlines_chunk_pos/MoveAfter(next)/next-line-is-no-directive", db.loc(f, n),
                    "the lead-case move is not guarded by `next2->Is(CT_PREPROC)` false")
    # the other two moves of the newline passes carry an open brace over line breaks
    from ..flow import ReachingDefs, var_id

    def prov(g, rd, i, at, depth=0):
        n = g.nodes.get(i)
        while n is not None and n["k"] == "cast":
            n = g.nodes.get(n["a"][0])
        if n is None:
            return set()
        out = {expr_str(g, n["i"])}
        if n["k"] == "ref" and n.get("d") in ("lv", "pv") and depth < 6:
            for info in rd.at(at, var_id(n)):
                rhs = rd.rhs_of(info)
                if rhs is not None:
                    out |= prov(g, rd, rhs, info[1]["i"], depth + 1)
        if n["k"] == "call" and "o" in n and depth < 6:
            out |= prov(g, rd, n["o"], at, depth + 1)
        return out
    g = db.fn("newline_del_between", file="src/newlines/del_between.cpp")
    mv = [n for n in g.all_nodes() if n["k"] == "call" and n.get("c") == "Chunk::MoveAfter"]
    r.require(len(mv) == 1, "newline_del_between: %d MoveAfter calls" % len(mv))
    from ..flow import resolved_conds
    cs = resolved_conds(g, ReachingDefs(g, db), g.nblock[mv[0]["i"]])
    r.seen()
    r.check(("start->IsSamePreproc(end)", True) in cs or ("end->IsSamePreproc(start)", True) in cs, "newline_del_between/MoveAfter(start)/same-directive",
            db.loc(g, mv[0]), "the open brace is hoisted behind `start` without the test that both lie in the same directive (or both outside): the `{` "
            "after a macro whose body ends in `if (..)` / `else` / `do` moves into the #define line")
    g = db.fn("newline_add_between", file="src/newlines/add.cpp")
    mv = [n for n in g.all_nodes() if n["k"] == "call" and n.get("c") == "Chunk::MoveAfter"]
    r.require(len(mv) == 1, "newline_add_between: %d MoveAfter calls" % len(mv))
    rdg = ReachingDefs(g, db)
    ps = prov(g, rdg, mv[0]["a"][0], mv[0]["i"])
    r.seen()
    r.check(not [p for p in ps if "(PREPROC)" in p], "newline_add_between/MoveAfter(%s)/not-over-directive-lines" % expr_str(g, mv[0]["a"][0]), db.loc(g, mv[0]),
            "the chunk the open brace is pushed behind is found with a navigation that skips whole preprocessor lines (%s): the `{` is "
            "carried across #if / #define lines" % sorted(p for p in ps if "(PREPROC)" in p))
    # ... and the pairs handed to these functions: a partner found by skipping preprocessor lines must not be an open brace
    n_pairs = 0
    for qn in ("newline_del_between", "newline_iarf_pair", "newline_add_between"):
        for g2, c in db.callers_of(qn):
            if len(c.get("a", ())) < 2:
                continue
            n_pairs += 1
            rd2 = ReachingDefs(g2, db)
            pp = sorted(p for a in c["a"][:2] for p in prov(g2, rd2, a, c["i"]) if "(PREPROC)" in p)
            if not pp:
                continue
            r.seen()
            end = expr_str(g2, c["a"][1])
            cs2 = [(expr_str(g2, cn), pol) for cn, pol in g2.guard_conds(g2.nblock[c["i"]]) if cn is not None]
            first = expr_str(g2, c["a"][0])
            HOIST = ("CT_PAREN_CLOSE", "CT_SPAREN_CLOSE", "CT_FPAREN_CLOSE", "CT_DO", "CT_ELSE")

            def typed(x):
                return [m.group(1) for t, pol in cs2 if pol is True for m in [re.match(r"^%s->Is\((CT_\w+)\)$" % re.escape(x), t)] if m]
            end_not_open = any("BRACE_OPEN" not in t for t in typed(end)) or any(pol is False and t in (end + "->Is(CT_BRACE_OPEN)", end + "->IsBraceOpen()") for t, pol in cs2)
            start_no_hoist = any(t not in HOIST for t in typed(first))
            not_open = end_not_open or start_no_hoist
            r.check(not_open, "%s/%s(%s, %s)/partner-not-over-directive-lines" % (g2.qn.split("::")[-1], qn, expr_str(g2, c["a"][0]), end), db.loc(g2, c),
                    "the pair is found with %s, which skips whole preprocessor lines, and nothing says that `%s` is not an open brace (or that the first "
                    "chunk is not `)`/do/else): %s() then hoists the `{` across the directive" % (pp, end, qn))
    r.require(n_pairs >= 40, "only %d pair call sites found" % n_pairs)
    r.floor(4)
    return r


def swap_lines_rule(ctx):
    """Chunk::SwapLines exchanges two whole lines.  Outside the sorters it is used to move `break` / `return` behind the
    closing brace of a case block; that is a move of one token only if both chunks are the first on their lines."""
    db = ctx.db
    r = ctx.rule("swap-first-on-line", "every Chunk::SwapLines call outside sorting.cpp is dominated by the facts that both chunks are the first "
                 "chunk of their line (`X->GetPrev()->IsNewline()` for receiver and argument)")
    n_calls = 0
    for f in db.funcs.values():
        if f.file == "src/sorting.cpp" or f.d.get("cls") == "Chunk":
            continue
        for n in f.nodes.values():
            if n["k"] != "call" or n.get("c") != "Chunk::SwapLines":
                continue
            n_calls += 1
            r.seen()
            a, b = expr_str(f, n.get("o")), expr_str(f, n["a"][0])
            cs = [(expr_str(f, cn), pol) for cn, pol in f.guard_conds(f.nblock[n["i"]]) if cn is not None and pol is True]
            txt = " ".join(c for c, p in cs)
            firsts = set(re.findall(r"(\w+)->GetPrev\(\w*\)->IsNewline\(\)", txt))
            r.check(len(firsts) >= 2, "%s/SwapLines(%s,%s)" % (f.qn, a, b), db.loc(f, n),
                    "%s swaps the lines of `%s` and `%s` without the tests that both are the first chunk of their line (found for: %s): other "
                    "tokens of those lines are carried along" % (f.qn, a, b, sorted(firsts) or "none"))
    r.require(n_calls >= 2, "only %d SwapLines calls outside the sorters" % n_calls)
    r.floor(2)
    return r
