"""C12 --check and --if-changed tell the truth and write nothing they should not.

Decided: (1) every file-creating event of do_source_file/main is control-dependent on !cpd.do_check (directly or through
a checked latch flag); (2) the failure counter is incremented exactly under do_check && !bout_content_matches and decides
main's status; bout_content_matches is false exactly on a size or byte difference and its PASS/FAIL messages sit under the
same conditions; (3) the memory sink and the file sink of write_byte receive the same bytes and nobody else feeds them;
(4) the --if-changed early return happens before any file is created, and the late write copies all of the buffer.
Not decided: that formatting itself is deterministic (C10) - the equation 'would be reproduced' is taken as 'bout == raw'.
"""
from ..facts import expr_str, walk, callee_names, global_path
from ..flow import ReachingDefs, var_id
from .common_io import *


def _conds(f, n):
    return [(expr_str(f, cn), pol) for cn, pol in f.guard_conds(f.nblock[n["i"]]) if cn is not None]


def _latches(f, names):
    """flag -> list of `flag = true` assignment nodes, provided the flag is declared false and never otherwise written"""
    out = {}
    for name in names:
        sets = [n for n in f.all_nodes() if n["k"] == "asg" and expr_str(f, n["a"][0]) == name]
        ok = sets and all(f.nodes[s["a"][1]]["k"] == "bool" and f.nodes[s["a"][1]]["v"] == 1 and s["op"] == "=" for s in sets)
        decl = [v for n in f.all_nodes() if n["k"] == "decl" for v in n["vars"] if v["n"] == name and "init" in v
                and f.nodes[v["init"]]["k"] == "bool" and f.nodes[v["init"]]["v"] == 0]
        if ok and decl:
            out[name] = sets
    return out


def not_check(conds):
    return ("!cpd.do_check", True) in conds or ("cpd.do_check", False) in conds


def rule_check_writes_nothing(ctx):
    db = ctx.db
    r = ctx.rule("check-writes-nothing", "every file-creating event in do_source_file (and the stdout redirection in main) is "
                 "control-dependent on !cpd.do_check, directly or through a latch flag set only under it; main rejects --check "
                 "together with every output-selecting argument")
    f = db.fn("do_source_file", file=UNC)
    r.names(f, "pfout", "filename_in", "filename_out", "filename_tmp", "need_backup", "did_open")
    latches = _latches(f, ("did_open", "need_backup"))
    events = [n for n in f.all_nodes() if is_write_open(f, n) or (n["k"] == "call" and (n.get("c") in FILE_MUTATORS or n.get("c") in
              ("backup_copy_file", "backup_create_md5_file", "make_folders")))]
    r.require(len(events) >= 6, "do_source_file: only %d file-creating events found" % len(events))

    def guarded(n, depth=0):
        conds = _conds(f, n)
        if not_check(conds):
            return True
        if depth < 2:
            for name, sets in latches.items():
                if (name, True) in conds and all(guarded(s, depth + 1) for s in sets):
                    return True
        return False
    for e in events:
        r.seen()
        r.check(guarded(e), "do_source_file/%s-not-under-check" % e["c"], db.loc(f, e),
                "%s can run under --check (controlling conditions: %s)" % (expr_str(f, e["i"])[:60], _conds(f, e)))
    # the only other writer of files on the source path: uncrustify_file gets a null FILE* unless !do_check
    for n in db.calls_in(f, "uncrustify_file"):
        r.seen()
        a1 = expr_str(f, n["a"][1])
        if a1 == "nullptr":
            r.ok("do_source_file/uncrustify_file-null-sink", db.loc(f, n))
        else:
            # pfout is assigned only under !do_check (it is declared nullptr)
            rd = ReachingDefs(f, db)
            asg = [x for x in f.all_nodes() if x["k"] == "asg" and expr_str(f, x["a"][0]) == a1]
            r.check(a1 == "pfout" and asg and all(not_check(_conds(f, x)) for x in asg), "do_source_file/pfout-only-without-check", db.loc(f, n),
                    "the FILE* handed to uncrustify_file can be non-null under --check")
    m = db.fn("main", file=UNC)
    # rejection of --check with output options
    rej = [n for n in db.calls_in(m, "usage_error") if "--check" in expr_str(m, n["i"])]
    r.check(len(rej) == 1, "main/rejects-check-with-output", db.loc(m, m.l0), "main no longer rejects --check combined with output options")
    names = set()
    if rej:
        cs = m.guard_conds(m.nblock[rej[0]["i"]])
        for cn, pol in cs:
            c = m.nodes.get(cn)
            if c and c["k"] == "bin" and c["op"] == "&&" and pol is True and expr_str(m, c["a"][0]) == "cpd.do_check":
                for x in walk(m, c["a"][1]):
                    if x["k"] == "ref" and x.get("d") in ("lv", "pv"):
                        names.add(x["n"])
                    if x["k"] == "mem":
                        names.add("cpd." + x["n"])
                ops = set(x.get("op") for x in walk(m, c["a"][1]) if x["k"] in ("bin", "un"))
                r.check(ops <= {"||"}, "main/rejection-is-a-disjunction", db.loc(m, rej[0]), "the rejected combination is no longer a plain disjunction: %s" % expr_str(m, c["a"][1]))
        need = {"output_file", "replace", "no_backup", "keep_mtime", "prefix", "suffix", "cpd.if_changed", "update_config", "update_config_wd", "detect"}
        r.check(need <= names, "main/rejected-set-complete", db.loc(m, rej[0]), "--check is accepted together with %s" % sorted(need - names))
        ok, wit = region_always_returns_nonzero(m, rej[0])
        r.check(ok, "main/rejection-returns-nonzero", db.loc(m, rej[0]), "after the usage error main continues")
    # files created below uncrustify_file(): the tracking file, the parsed-token file, the dump-steps files.  Each is selected
    # by a command line argument; --check must be rejected together with it (the tracking branch even leaves through exit(0)
    # before the comparison, so --check would report success for a file that is not formatted)
    u = db.fn("uncrustify_file", file=UNC)
    reach = db.reachable_from([u])

    def roots(g, expr, depth=0):
        """what the expression `expr` (a parameter of g, or a global) is in main(): set of texts"""
        if g.qn == "main" or depth > 4:
            return {expr}
        ps = [q["n"] for q in g.d.get("params", ())]
        if expr not in ps:
            return {expr}                                   # a global or something computed here
        out = set()
        for g2, c in db.callers_of_key(g.key):
            a = c.get("a", ())
            if len(a) > ps.index(expr):
                out |= roots(g2, expr_str(g2, a[ps.index(expr)]), depth + 1)
        return out
    n_ev = 0
    for k in sorted(reach):
        g = db.funcs[k]
        if g.qn in ("make_folders",):
            continue                                        # called with the name of a file that is created next to the call: judged at that site
        for n in g.all_nodes():
            if not (is_write_open(g, n) or (n["k"] == "call" and n.get("c") in FILE_MUTATORS)):
                continue
            n_ev += 1
            r.seen()
            sel = set()
            for cn, pol in g.guard_conds(g.nblock[n["i"]]):
                if cn is None:
                    continue
                for x in walk(g, cn):
                    if x["k"] == "ref" and x.get("d") == "pv":
                        sel |= roots(g, x["n"])
                    elif x["k"] == "mem" and expr_str(g, x["i"]).startswith("cpd."):
                        sel.add(expr_str(g, x["i"]))
            sel_names = set()
            for t in sel:
                if t == "dump_file_name":
                    # the buffer is filled only by set_dump_file_name(), which main calls only when -ds/--dump-steps was given
                    setters = [c for c in db.calls_in(m, "set_dump_file_name")]
                    if setters and all(any("dump_file_T" in expr_str(m, cn) and pol is True for cn, pol in m.guard_conds(m.nblock[c["i"]]) if cn is not None) for c in setters) \
                            and not [1 for g3, c in db.callers_of("set_dump_file_name") if g3.qn != "main"]:
                        sel_names.add("dump_file_T")
                else:
                    sel_names.add(t)
            r.check(bool(sel_names & names), "%s/%s-selected-by-a-rejected-argument" % (g.qn, (n.get("c") or "open")), db.loc(g, n),
                    "`%s` creates a file under conditions over %s; none of these is an argument that main rejects together with --check (%s)"
                    % (expr_str(g, n["i"])[:50], sorted(sel) or "nothing", sorted(names)))
    r.require(n_ev >= 3, "only %d file-creating events found below uncrustify_file" % n_ev)
    for n in db.calls_in(m, "redir_stdout"):
        r.seen()
        conds = m.guard_conds(m.nblock[n["i"]])
        ok = not_check([(expr_str(m, cn), pol) for cn, pol in conds if cn is not None])
        if not ok:
            # propositional step: fact (cpd.do_check && (x1 || .. || xn)) is false [the rejection did not fire] and a
            # fact (xi || xj ..) is true  ==>  cpd.do_check is false
            def leaves(i):
                return set(x["n"] if x["k"] == "ref" else "cpd." + x["n"] for x in walk(m, i) if (x["k"] == "ref" and x.get("d") in ("lv", "pv")) or x["k"] == "mem")

            def pure_or(i):
                return set(x.get("op") for x in walk(m, i) if x["k"] in ("bin", "un", "call")) <= {"||"}
            for cn, pol in conds:
                c = m.nodes.get(cn)
                if pol is False and c and c["k"] == "bin" and c["op"] == "&&" and expr_str(m, c["a"][0]) == "cpd.do_check" and pure_or(c["a"][1]):
                    L = leaves(c["a"][1])
                    for en, epol in conds:
                        if epol is True and en is not None and pure_or(en) and leaves(en) and leaves(en) <= L:
                            ok = True
        r.check(ok, "main/redir_stdout-not-under-check", db.loc(m, n), "stdout can be redirected to a file under --check")
    r.floor(10)


def region_always_returns_nonzero(m, node):
    """after `node` the next return on every path has a non-zero constant argument and no source is processed before"""
    bad = m.paths_avoiding(node["i"], lambda n: n["k"] == "call" and n.get("c") in ("do_source_file", "uncrustify_file", "process_source_list"),
                           lambda n: n["k"] == "ret")
    if bad:
        return False, bad
    w = m.paths_avoiding(node["i"], lambda n: n["k"] == "ret" and (not n.get("a") or m.nodes[n["a"][0]].get("v") == 0), lambda n: n["k"] == "ret")
    return (w is None), w


def rule_status(ctx):
    db = ctx.db
    r = ctx.rule("status", "cpd.check_fail_cnt is only incremented, only in uncrustify_file under do_check && !bout_content_matches, on "
                 "every returning path after output_text; main returns failure iff do_check && count != 0; bout_content_matches is "
                 "false exactly on a size or byte difference and reports PASS/FAIL under the same conditions")
    writes = []
    for f in db.funcs.values():
        for n in f.nodes.values():
            if n["k"] in ("asg", "un") and n.get("a"):
                if n["k"] == "un" and n["op"] not in ("++", "--"):
                    continue
                gp = global_path(f, n["a"][0])
                if gp and gp.endswith("cpd.check_fail_cnt"):
                    writes.append((f, n))
    r.require(writes, "cpd.check_fail_cnt is never written")
    for f, n in writes:
        r.seen()
        ok = f.qn == "uncrustify_file" and n["k"] == "un" and n["op"] == "++"
        r.check(ok, "check_fail_cnt-written-in/%s" % f.qn, db.loc(f, n), "cpd.check_fail_cnt is modified by `%s` in %s" % (expr_str(f, n["i"]), f.qn))
        if ok:
            conds = _conds(f, n)
            want1 = ("cpd.do_check", True) in conds
            want2 = any(c.startswith("bout_content_matches(fm, true") and pol is False for c, pol in conds)
            extra = [c for c in conds if c[0] not in ("cpd.do_check",) and not c[0].startswith(("bout_content_matches", "!bout_content_matches", "cpd.do_check &&"))
                     and "log_sev_on" not in c[0]]
            # conditions that merely lead to exit() earlier in the function are not skips of the counter: accept
            # only conditions whose other edge cannot reach the function's normal exit
            r.check(want1 and want2, "uncrustify_file/count-iff-check-and-mismatch", db.loc(f, n),
                    "the failure counter is not controlled by do_check && !bout_content_matches(fm, true, ...): %s" % conds)
    u = db.fn("uncrustify_file", file=UNC)
    outs = db.calls_in(u, "output_text")
    r.require(outs, "uncrustify_file does not call output_text")
    for o in outs:
        r.seen()
        p = u.exit_reachable_avoiding(o["i"], lambda n: (n["k"] == "mem" and n["n"] == "do_check") or is_exit_call(n))
        r.check(p is None, "uncrustify_file/check-after-output", db.loc(u, o),
                "uncrustify_file can return after output_text() without evaluating the --check comparison",
                path=["%s:%d" % (u.file, l) for l in u.path_lines(p)] if p else None)
    # main's status
    m = db.fn("main", file=UNC)
    rets = [n for n in m.all_nodes() if n["k"] == "ret"]
    final = [n for n in rets if ("cpd.check_fail_cnt != 0", True) in _conds(m, n)]
    r.check(len(final) == 1 and m.nodes[final[0]["a"][0]].get("v") == 1 and ("cpd.check_fail_cnt != 0", True) in _conds(m, final[0]) and ("cpd.do_check", True) in _conds(m, final[0]),
            "main/failure-status", db.loc(m, final[0] if final else m.l1), "main does not return EXIT_FAILURE under do_check && check_fail_cnt != 0")
    # every path from a source-processing call to a `return 0` passes the check_fail_cnt test
    for n in m.all_nodes():
        if n["k"] == "call" and n.get("c") in ("do_source_file", "uncrustify_file", "process_source_list"):
            r.seen()
            w = m.paths_avoiding(n["i"], lambda x: x["k"] == "ret" and x.get("a") and m.nodes[x["a"][0]].get("v") == 0,
                                 lambda x: x["k"] == "mem" and x["n"] in ("check_fail_cnt", "do_check"))
            r.check(w is None, "main/success-only-after-count-test", db.loc(m, n), "main can return 0 after processing sources without testing check_fail_cnt")
    # bout_content_matches
    b = db.fn("bout_content_matches", file=UNC)
    r.names(b, "fm", "report_status")
    falses = [n for n in b.all_nodes() if n["k"] == "asg" and expr_str(b, n["a"][0]) == "is_same"]
    r.check(len(falses) == 2 and all(b.nodes[x["a"][1]].get("v") == 0 for x in falses), "bout_content_matches/two-false-sites", db.loc(b, b.l0),
            "is_same assignments changed: %s" % [expr_str(b, x["i"]) for x in falses])
    size_c = "cpd.bout->size() != fm.raw.size()"
    byte_c = "fm.raw[idx] != *cpd.bout[idx]"
    seen_size = seen_byte = False
    for x in falses:
        cs = _conds(b, x)
        norm = lambda c: c.replace("(", "").replace(")", "").replace("int", "")
        allowed = {norm(size_c), "fm.raw[idx] != *cpd.bout[idx]", "*cpd.bout[idx] != fm.raw[idx]", "idx < fm.raw.size"}
        extra = [c for c in cs if norm(c[0]) not in allowed]
        r.check(not extra, "bout_content_matches/difference-always-counts", db.loc(b, x), "`is_same = false` additionally depends on %s" % extra)
        if (size_c, True) in cs:
            seen_size = True
        elif any(pol is True and c.replace("(", "").replace(")", "") in ("fm.raw[idx] != *cpd.bout[idx]", "*cpd.bout[idx] != fm.raw[idx]") for c, pol in cs) and (size_c, False) in cs:
            seen_byte = True
    r.check(seen_size, "bout_content_matches/size-difference", db.loc(b, b.l0), "no `is_same = false` under a size difference")
    r.check(seen_byte, "bout_content_matches/byte-difference", db.loc(b, b.l0), "no `is_same = false` under a byte difference (sizes equal)")
    decl = [v for n in b.all_nodes() if n["k"] == "decl" for v in n["vars"] if v["n"] == "is_same"]
    r.check(len(decl) == 1 and b.nodes[decl[0]["init"]].get("v") == 1, "bout_content_matches/starts-true", db.loc(b, b.l0), "is_same is not initialised to true")
    brets = [n for n in b.all_nodes() if n["k"] == "ret"]
    r.check(len(brets) == 1 and expr_str(b, brets[0]["i"]) == "return is_same", "bout_content_matches/returns-is_same", db.loc(b, brets[0] if brets else b.l0), "does not return is_same")
    # the byte loop covers [0, raw.size())
    idx_decl = [v for n in b.all_nodes() if n["k"] == "decl" for v in n["vars"] if v["n"] == "idx"]
    loops = [blk for blk in b.blocks.values() if blk.get("term") and blk["term"]["k"] == "ForStmt"]
    okloop = (len(idx_decl) == 1 and b.nodes[idx_decl[0]["init"]].get("v") == 0 and len(loops) == 1
              and expr_str(b, loops[0]["term"].get("lc", loops[0]["term"].get("c"))).replace("(int)", "") == "idx < fm.raw.size()"
              and any(n["k"] == "un" and n["op"] == "++" and expr_str(b, n["a"][0]) == "idx" for n in b.all_nodes()))
    r.check(okloop, "bout_content_matches/loop-covers-all-bytes", db.loc(b, b.l0), "the byte comparison loop no longer runs idx = 0 .. raw.size()-1 step 1")
    # PASS/FAIL messages
    for n in db.calls_in(b, "fprintf"):
        r.seen()
        fmt = b.nodes[n["a"][1]].get("v", "")
        cs = _conds(b, n)
        if fmt.startswith("FAIL"):
            ok = (size_c, True) in cs or any(pol is True and "!=" in c and "idx" in c for c, pol in cs)
            r.check(ok and ("report_status", True) in cs, "bout_content_matches/FAIL-under-difference", db.loc(b, n), "FAIL printed under %s" % cs)
        elif fmt.startswith("PASS"):
            r.check(("is_same", True) in cs, "bout_content_matches/PASS-under-equality", db.loc(b, n), "PASS printed under %s" % cs)
    r.floor(14)


def rule_same_bytes(ctx):
    db = ctx.db
    r = ctx.rule("same-bytes", "write_byte feeds the file sink and the memory sink with the same value under the same condition; nobody "
                 "else writes to cpd.fout or pushes into *cpd.bout; the --if-changed late write copies the whole buffer")
    w = db.fn("write_byte", file="src/unicode.cpp")
    fp = [n for n in db.calls_in(w, "fputc")]
    pb = [n for n in w.all_nodes() if n["k"] == "call" and (n.get("c") or "").endswith("::push_back")]
    r.require(len(fp) == 1 and len(pb) == 1, "write_byte: fputc sites %d, push_back sites %d" % (len(fp), len(pb)))
    SINK_TESTS = ("cpd.fout", "cpd.bout", "cpd.fout != nullptr", "cpd.bout != nullptr", "cpd.fout == nullptr", "cpd.bout == nullptr", "!cpd.fout", "!cpd.bout")
    c1 = set(c for c in _conds(w, fp[0]) if c[0] not in SINK_TESTS)
    c2 = set(c for c in _conds(w, pb[0]) if c[0] not in SINK_TESTS)
    r.check(c1 == c2, "write_byte/same-condition", db.loc(w, fp[0]), "file sink under %s, memory sink under %s" % (sorted(c1), sorted(c2)))
    # the two sinks are independent of each other: the memory copy (what --check compares) is filled whether or not a file
    # is being written - main() runs --check on stdin with stdout as the file sink
    f1 = [c for c in _conds(w, fp[0]) if "cpd.bout" in c[0]]
    f2 = [c for c in _conds(w, pb[0]) if "cpd.fout" in c[0]]
    r.check(not f1 and not f2, "write_byte/sinks-independent", db.loc(w, pb[0]),
            "one sink is conditioned on the other (file sink under %s, memory sink under %s): with a file sink present the buffer that "
            "--check compares stays empty" % (f1, f2))
    v1 = expr_str(w, fp[0]["a"][0])
    v2 = expr_str(w, pb[0]["a"][0]).replace("(UINT8)", "").replace("(unsigned char)", "")
    r.check(v1 == "ch" and v2 == "ch", "write_byte/same-value", db.loc(w, pb[0]), "file sink gets `%s`, memory sink gets `%s`" % (v1, v2))
    r.check(expr_str(w, fp[0]["a"][1]) == "cpd.fout" and expr_str(w, pb[0].get("o")) == "cpd.bout", "write_byte/sinks", db.loc(w, fp[0]), "sinks changed")
    # who else writes to cpd.fout / cpd.bout contents
    for f in db.funcs.values():
        for n in f.nodes.values():
            if n["k"] != "call":
                continue
            c = n.get("c") or ""
            if c in ("fputc", "fputs", "fwrite", "fprintf", "putc", "vfprintf") and any(expr_str(f, a) == "cpd.fout" for a in n.get("a", ())):
                r.seen()
                r.check(f.key == w.key, "cpd.fout-written-in/%s" % f.qn, db.loc(f, n), "%s writes to cpd.fout directly, bypassing the memory sink" % f.qn)
            if "o" in n and global_path(f, n["o"]) in ("cpd.bout",) or ("o" in n and expr_str(f, n["o"]) in ("cpd.bout", "*cpd.bout")):
                meth = c.split("::")[-1]
                if meth in ("size", "begin", "end", "operator[]", "empty", "at", "cbegin", "cend"):
                    continue
                r.seen()
                def only_from_end(g, depth=0):
                    """g is uncrustify_end, or a helper all of whose callers are (helpers of) uncrustify_end"""
                    if g.qn == "uncrustify_end":
                        return True
                    cs0 = db.callers_of_key(g.key)
                    return depth < 2 and bool(cs0) and all(only_from_end(h0, depth + 1) for h0, _c in cs0)
                allowed = (f.key == w.key and meth == "push_back") or (meth == "clear" and only_from_end(f))
                r.check(allowed, "cpd.bout-%s-in/%s" % (meth, f.qn), db.loc(f, n), "%s calls %s on the check buffer" % (f.qn, meth))
    # cpd.fout is assigned only in output_text from its parameter
    for f in db.funcs.values():
        for n in f.nodes.values():
            if n["k"] == "asg" and global_path(f, n["a"][0]) == "cpd.fout":
                r.seen()
                r.check(f.qn == "output_text" and expr_str(f, n["a"][1]) == "pfile", "cpd.fout-assigned-in/%s" % f.qn, db.loc(f, n), "cpd.fout assigned `%s` in %s" % (expr_str(f, n["a"][1]), f.qn))
            if n["k"] == "asg" and global_path(f, n["a"][0]) == "cpd.bout":
                r.seen()
                r.check(f.qn == "main", "cpd.bout-assigned-in/%s" % f.qn, db.loc(f, n), "cpd.bout reassigned in %s" % f.qn)
    # late write of --if-changed: range-for over *cpd.bout with fputc(i, pfout)
    d = db.fn("do_source_file", file=UNC)
    late = [n for n in db.calls_in(d, "fputc")]
    r.check(len(late) == 1 and expr_str(d, late[0]["a"][1]) == "pfout" and ("cpd.if_changed", True) in _conds(d, late[0]), "do_source_file/late-write", db.loc(d, late[0] if late else d.l0),
            "the --if-changed late write changed shape")
    if late:
        rng = [blk for blk in d.blocks.values() if blk.get("term") and blk["term"]["k"] == "CXXForRangeStmt"]
        srcs = [expr_str(d, v["init"]) for n in d.all_nodes() if n["k"] == "decl" for v in n["vars"] if v["n"].startswith("__range") and "init" in v]
        r.check(len(rng) == 1 and srcs == ["*cpd.bout"], "do_source_file/late-write-whole-buffer", db.loc(d, late[0]), "late write iterates over %s" % srcs)
        val = d.nodes[late[0]["a"][0]]
        r.check(val["k"] == "ref" and val["n"] == "i", "do_source_file/late-write-value", db.loc(d, late[0]), "late write emits `%s`" % expr_str(d, late[0]["a"][0]))
    r.floor(9)


def rule_if_changed_early(ctx):
    db = ctx.db
    r = ctx.rule("if-changed-early", "under --if-changed the formatter runs with a null FILE*, and when the buffer equals the input "
                 "do_source_file returns before any file-creating event")
    f = db.fn("do_source_file", file=UNC)
    r.names(f, "pfout", "filename_in", "filename_out", "filename_tmp", "need_backup", "did_open")
    ufs = db.calls_in(f, "uncrustify_file")
    first = [n for n in ufs if ("cpd.if_changed", True) in _conds(f, n)]
    r.check(len(first) == 1 and expr_str(f, first[0]["a"][1]) == "nullptr" and expr_str(f, first[0]["a"][5]) == "true", "do_source_file/if-changed-formats-to-memory",
            db.loc(f, first[0] if first else f.l0), "the --if-changed formatting call must be uncrustify_file(fm, nullptr, ..., defer=true)")
    other = [n for n in ufs if n not in first]
    for n in other:
        r.check(("cpd.if_changed", False) in _conds(f, n), "do_source_file/no-second-format-under-if-changed", db.loc(f, n), "a second formatting run is possible under --if-changed")
    events = lambda n: is_write_open(f, n) or (n["k"] == "call" and (n.get("c") in FILE_MUTATORS or n.get("c") in ("backup_copy_file", "backup_create_md5_file", "make_folders", "fputc")))
    tests = [(b, blk) for b, blk in f.blocks.items() if blk.get("term") and expr_str(f, blk["term"].get("lc", blk["term"].get("c"))).startswith("bout_content_matches(")]
    r.check(len(tests) == 1, "do_source_file/if-changed-test", db.loc(f, f.l0), "expected one bout_content_matches test")
    for b, blk in tests:
        r.seen()
        r.check(("cpd.if_changed", True) in [(expr_str(f, cn), pol) for cn, pol in f.guard_conds(b) if cn is not None], "do_source_file/match-test-under-if-changed",
                db.loc(f, blk["term"]["l"]), "the early-return test is not under cpd.if_changed")
        w = f.paths_avoiding(f.succ[b][0], events, lambda n: n["k"] == "ret", start_is_node=False)
        r.check(w is None, "do_source_file/unchanged-writes-nothing", db.loc(f, blk["term"]["l"]),
                "with --if-changed and unchanged content a file-creating event is still reachable", path=["%s:%d" % (f.file, l) for l in f.path_lines(w[0])] if w else None)
        # no file-creating event before the test either
        w2 = f.paths_avoiding(f.entry, events, lambda n: n["k"] == "call" and n.get("c") == "bout_content_matches", start_is_node=False,
                              edge_ok=lambda bb, i: not (expr_str(f, (f.blocks[bb].get("term") or {}).get("lc", -1)) == "cpd.if_changed" and i == 1))
        r.check(w2 is None, "do_source_file/nothing-before-test", db.loc(f, blk["term"]["l"]), "a file-creating event precedes the --if-changed comparison")
    r.floor(5)


def rule_capture_per_file(ctx):
    """what --check / --if-changed compare is the buffer *cpd.bout: it must hold the bytes of this file only"""
    from . import c11
    c11.rule_reset(ctx, rid="capture-per-file", only=("cpd.bout",))


RULES = [rule_check_writes_nothing, rule_status, rule_same_bytes, rule_if_changed_early, rule_capture_per_file]
