"""C11 Files in one invocation are formatted independently of each other.

Decided: for every global location that the per-file code both writes and reads, either no read can observe a value
left by a previous file (every path from do_source_file()'s entry passes a whole-object store before the first read:
no upward-exposed load), or uncrustify_end() resets it on every path to its initial (zero) value; every path through
do_source_file reaches uncrustify_end (or exit); uncrustify_end empties the chunk list.
Not decided: heap objects reachable only through pointers held in locals; aliasing of globals through references
(stores through an alias are not seen as stores of the global - none exist today that are not also direct stores).
"""
from ..facts import expr_str, walk, in_macro
from ..globalstate import GlobalState, OPTIONS
from .common_io import UNC, is_exit_call

_gs_cache = {}


def gstate(db):
    if id(db) not in _gs_cache:
        _gs_cache[id(db)] = GlobalState(db)
    return _gs_cache[id(db)]


def zero_like(f, i):
    n = f.nodes.get(i)
    if n is None:
        return False
    if n["k"] in ("int", "bool", "chr"):
        return n["v"] == 0
    if n["k"] == "null":
        return True
    if n["k"] == "ref" and n.get("d") == "ec":
        return n.get("v") == 0
    if n["k"] == "cast":
        return zero_like(f, n["a"][0])
    return False


def rule_reset(ctx, rid="reset", only=None):
    db = ctx.db
    r = ctx.rule(rid, "each global location written and read by per-file code is either never read before a whole-object store "
                 "on any path from do_source_file's entry (no upward-exposed load), or reset to zero on every path of uncrustify_end")
    gs = gstate(db)
    root = db.fn("do_source_file", file=UNC)
    end = db.fn("uncrustify_end", file=UNC)
    P = db.reachable_from([root])
    r.require(len(P) >= 700, "only %d functions reachable from do_source_file" % len(P))
    r.require(end.key in P, "uncrustify_end is not reachable from do_source_file")
    G = []
    for loc in sorted(set(gs.stores) & set(gs.loads)):
        st = [(f, n, s) for (f, n, s) in gs.stores[loc] if f.key in P]
        ld = [(f, n) for (f, n) in gs.loads[loc] if f.key in P]
        if st and ld:
            G.append((loc, st, ld))
    r.require(len(G) >= 40, "only %d global locations are written and read by per-file code (expected >= 40)" % len(G))
    if only is not None:
        G = [g for g in G if g[0] in only]
        r.require(len(G) == len(only), "locations %s are no longer written and read by per-file code" % sorted(set(only) - set(g[0] for g in G)))
    pk = sorted(P)
    for loc, st, ld in G:
        r.seen(len(st) + len(ld))
        exposed, mustinit, witness = gs.exposure(loc, pk)
        if not exposed[root.key]:
            r.ok(loc, "%s:%d" % (st[0][0].file, st[0][1]["l"]), "no upward-exposed load (%d stores, %d loads)" % (len(st), len(ld)))
            continue
        # exposed: then do_source_file must leave the location clean (zero / empty, its initial value) on every return
        wf, wn, chain = witness[root.key]
        wfun = db.funcs[wf]
        loc_s = "%s:%d" % (wfun.file, wn["l"])
        dirty, dw = gs.dirty_exit(loc, pk, root.key)
        if not dirty:
            r.ok(loc, loc_s, "exposed load in %s, but every return of do_source_file leaves it zero/empty" % wfun.qn)
            continue
        stores_s = sorted(set("%s" % f.qn for f, n, s in st))
        dws = ""
        if dw and dw[1] is not None:
            dws = "; e.g. the value stored at %s:%d (%s) survives to the return of do_source_file" % (db.funcs[dw[0]].file, dw[1]["l"], db.funcs[dw[0]].qn)
        r.fail(loc, loc_s, "%s is read in %s (`%s`) before any whole-object store on a path from do_source_file's entry (call chain %s); "
               "it is written by %s and not reset on every path%s: the value left by the previous file is observed"
               % (loc, wfun.qn, db.src_line(wfun.file, wn["l"])[:70], " > ".join(db.funcs[k].qn for k in chain), stores_s[:6], dws))
    if only is None:
        # checked precondition of the reviewed exception for cpd.pass_count: the budget of newline passes is set in
        # uncrustify_file() itself, in front of the loop that spends it
        u = db.fn("uncrustify_file", file=UNC)
        from ..flow import ReachingDefs as _RD, var_id as _vid

        def _const(i, at, depth=0):
            x = u.nodes.get(i)
            while x is not None and x["k"] == "cast":
                x = u.nodes.get(x["a"][0])
            if x is None:
                return False
            if x["k"] == "int":
                return True
            if x["k"] == "ref" and x.get("d") == "lv" and depth < 2:
                ds = _RD(u, db).at(at, _vid(x))
                return len(ds) == 1 and ds[0][0] == "decl" and _RD(u, db).rhs_of(ds[0]) is not None and _const(_RD(u, db).rhs_of(ds[0]), ds[0][1]["i"], depth + 1)
            return False
        sets = [n for n in u.all_nodes() if n["k"] == "asg" and n["op"] == "=" and expr_str(u, n["a"][0]) == "cpd.pass_count" and _const(n["a"][1], n["i"])]
        uses = [n for n in u.all_nodes() if n["k"] == "un" and n.get("op") in ("--", "++") and expr_str(u, n["a"][0]) == "cpd.pass_count"]
        outside = [g.qn for g, n, st in gs.stores.get("cpd.pass_count", ()) if g.key != u.key]
        r.check(bool(sets) and bool(uses) and all(any(u.dominates(s0["i"], x["i"]) for s0 in sets) for x in uses) and not outside,
                "cpd.pass_count/set-per-file-before-it-is-spent", db.loc(u, uses[0] if uses else u.l0),
                "the pass budget cpd.pass_count is not (only) set in uncrustify_file() in front of the loop that decrements it (other writers: %s): "
                "later files of an invocation get what the earlier ones left" % outside)
    if only is None:
        # checked precondition of the reviewed exceptions for `eol` and `file_num` (state of the -p / --dump-steps output): only
        # one file of an invocation can be processed with these outputs - every call of do_source_file() in a loop passes nullptr
        n_loop = n_one = 0
        for f2, c in db.callers_of("do_source_file"):
            a = c.get("a", ())
            if len(a) < 4:
                continue
            in_loop = any(f2.nblock[c["i"]] in body for h, body, _ in f2.loops())
            both_null = expr_str(f2, a[2]) in ("nullptr", "NULL") and expr_str(f2, a[3]) in ("nullptr", "NULL")
            if in_loop:
                n_loop += 1
                r.check(both_null, "do_source_file<-%s/no-parsed-or-dump-output-in-a-batch" % f2.qn, db.loc(f2, c),
                        "a batch of files is processed with -p / --dump-steps output (%s, %s): the scratch state of these outputs is carried from file to file"
                        % (expr_str(f2, a[2]), expr_str(f2, a[3])))
            else:
                n_one += 1
        r.check(n_loop >= 2 and n_one <= 1, "do_source_file/call-sites", "src/uncrustify.cpp:1", "expected two batch call sites and one single-file call site of do_source_file, found %d and %d" % (n_loop, n_one))
    if only is None:
        # checked precondition of the exception for cpd.output_tab_as_space: reset at the top of every iteration of
        # output_text()'s chunk loop, in a block that dominates every call made in that iteration
        o = db.fn("output_text", file="src/output.cpp")
        rs = [n for n in o.all_nodes() if n["k"] == "asg" and expr_str(o, n["i"]) == "cpd.output_tab_as_space = false"]
        okp = False
        for n in rs:
            loops = [(h, body) for h, body, _ in o.loops() if o.nblock[n["i"]] in body]
            if not loops:
                continue
            h, body = max(loops, key=lambda x: len(x[1]))
            later = [b for b in body if b != h and any(x["k"] == "call" and x.get("c") in ("add_text", "add_char", "output_comment_c", "output_comment_cpp", "output_comment_multi",
                                                                                                "output_comment_multi_simple") for x in o.blocks[b]["n"])]
            if later and all(o.dominates_block(o.nblock[n["i"]], b) for b in later):
                okp = True
        r.check(okp, "cpd.output_tab_as_space/reset-at-the-top-of-every-iteration", db.loc(o, rs[0] if rs else o.l0),
                "cpd.output_tab_as_space is not reset in a block of output_text()'s chunk loop that dominates every writer call of the iteration")
    r.floor(40 if only is None else len(only))


def rule_end_reached(ctx):
    db = ctx.db
    r = ctx.rule("end-reached", "every returning path through do_source_file after the file was loaded passes uncrustify_end() "
                 "(directly, or through uncrustify_file with defer=false whose every returning path calls it)")
    f = db.fn("do_source_file", file=UNC)
    u = db.fn("uncrustify_file", file=UNC)
    # uncrustify_file: every returning path passes uncrustify_end unless defer_uncrustify_end
    ends = db.calls_in(u, "uncrustify_end")
    r.require(len(ends) >= 1, "uncrustify_file does not call uncrustify_end")
    for e in ends:
        conds = [(expr_str(u, cn), pol) for cn, pol in u.guard_conds(u.nblock[e["i"]]) if cn is not None]
        r.check(("!defer_uncrustify_end", True) in conds or ("defer_uncrustify_end", False) in conds, "uncrustify_file/end-unless-deferred", db.loc(u, e),
                "uncrustify_end() in uncrustify_file is not controlled by !defer_uncrustify_end: %s" % conds)

    def uf_edge_ok(b, i):
        t = u.blocks[b].get("term")
        if t:
            c = t.get("lc", t.get("c"))
            s = expr_str(u, c) if c is not None else ""
            if s == "!defer_uncrustify_end":
                return i == 0
            if s == "defer_uncrustify_end":
                return i == 1
        return True
    from .c14 import _exit_avoiding_edges
    p = _exit_avoiding_edges(u, u.blocks[u.entry]["n"][0]["i"] if u.blocks[u.entry]["n"] else next(iter(u.all_nodes()))["i"],
                             lambda n: n["k"] == "call" and n.get("c") == "uncrustify_end" or is_exit_call(n), uf_edge_ok)
    r.check(p is None, "uncrustify_file/always-ends", db.loc(u, u.l0), "uncrustify_file(defer=false) can return without uncrustify_end()",
            path=["%s:%d" % (u.file, l) for l in u.path_lines(p)] if p else None)
    loads = db.calls_in(f, "load_mem_file")
    r.require(len(loads) == 1, "do_source_file: %d load_mem_file calls" % len(loads))

    def ender(n):
        if n["k"] != "call":
            return False
        if n.get("c") == "uncrustify_end" or is_exit_call(n):
            return True
        if n.get("c") == "uncrustify_file":
            d = f.nodes.get(n["a"][5]) if len(n["a"]) > 5 else None
            return d is not None and d["k"] == "bool" and d["v"] == 0
        return False
    p = f.exit_reachable_avoiding(loads[0]["i"], ender)
    r.check(p is None, "do_source_file/always-ends", db.loc(f, loads[0]), "do_source_file can return without the per-file cleanup having run",
            path=["%s:%d" % (f.file, l) for l in f.path_lines(p)] if p else None)
    # main's stdin branch and every other caller of uncrustify_file pass defer=false or call uncrustify_end afterwards
    for g, n in db.callers_of("uncrustify_file"):
        if g.key == f.key:
            continue
        r.seen()
        d = g.nodes.get(n["a"][5]) if len(n["a"]) > 5 else None
        r.check(d is not None and d["k"] == "bool" and d["v"] == 0, "%s/uncrustify_file-not-deferred" % g.qn, db.loc(g, n), "uncrustify_file called with deferred cleanup from %s" % g.qn)
    r.floor(4)


def rule_list_emptied(ctx):
    db = ctx.db
    r = ctx.rule("list-emptied", "uncrustify_end deletes chunks until Chunk::GetHead() is the null chunk, on every path")
    end = db.fn("uncrustify_end", file=UNC)
    dels = [n for n in end.all_nodes() if n["k"] == "call" and n.get("c") == "Chunk::Delete"]
    r.require(dels, "uncrustify_end has no Chunk::Delete")
    loops = end.loops()
    ok = False
    for h, body, backs in loops:
        t = end.blocks[h].get("term")
        if not t:
            continue
        s = expr_str(end, t.get("lc", t.get("c")))
        # `while ((pc = Chunk::GetHead())->IsNotNullChunk())` or `for (pc = GetHead(); pc->IsNotNullChunk(); pc = GetHead())`:
        # the cursor is (re)loaded from the head of the list on every round
        heads = [x for x in end.all_nodes() if x["k"] == "asg" and expr_str(end, x["a"][0]) == "pc" and end.nblock[x["i"]] in body]
        from_head = ("GetHead()" in s) or (heads and all("GetHead()" in expr_str(end, x["a"][1]) for x in heads))
        if from_head and "IsNotNullChunk" in s and any(end.nblock[d["i"]] in body for d in dels):
            # loop exit only through the head condition: no break
            exits = set(x for b in body for x in end.succ[b] if x >= 0 and x not in body)
            ok = len(exits) == 1 and end.dominates_block(h, next(iter(exits)))
            # the loop is on every path: header dominates exit
            ok = ok and end.dominates_block(h, end.exit)
            for d in dels:
                a = expr_str(end, d["a"][0])
                ok = ok and a == "pc"
    r.check(ok, "uncrustify_end/delete-until-null", db.loc(end, end.l0), "the delete-until-null loop over Chunk::GetHead() changed shape")
    r.floor(1)


RULES = [rule_reset, rule_end_reached, rule_list_emptied]


def rule_qt_restore(ctx):
    """the save/override/restore protocol of the Qt SIGNAL/SLOT option override (the only per-file writer of options)"""
    db = ctx.db
    r = ctx.rule("qt-restore", "Option<T>::operator= is reached per file only through temporary_iarf_option::save_and_override/restore; "
                 "QT_SIGNAL_SLOT_found is true exactly between them; uncrustify_end() calls restore_options_for_QT() under it; "
                 "restoreValues is set only under it")
    root = db.fn("do_source_file", file=UNC)
    P = db.reachable_from([root])
    writers = []
    for k in P:
        f = db.funcs[k]
        for n in f.nodes.values():
            if n["k"] == "call" and (n.get("c") or "").startswith("uncrustify::Option<") and (n.get("c") or "").split("::")[-1] in ("operator=", "reset", "read"):
                writers.append((f, n))
            if n["k"] == "call" and n.get("c") in ("uncrustify::GenericOption::read", "uncrustify::GenericOption::reset"):
                writers.append((f, n))
    r.require(writers, "no per-file option writer found (the Qt override vanished: drop the OPTIONS exception)")
    for f, n in writers:
        r.seen()
        r.check(f.qn.endswith("temporary_iarf_option::save_and_override") or f.qn.endswith("temporary_iarf_option::restore"),
                "option-written-in/%s" % f.qn, db.loc(f, n), "per-file code writes an option value in %s" % f.qn)
    sv = [f for f in db.funcs.values() if f.qn.endswith("temporary_iarf_option::save_and_override")]
    rs = [f for f in db.funcs.values() if f.qn.endswith("temporary_iarf_option::restore")]
    r.require(len(sv) == 1 and len(rs) == 1, "save_and_override/restore not found")
    sv, rs = sv[0], rs[0]
    # save: m_saved_value = (*m_option)() before (*m_option) = m_override_value ; restore: (*m_option) = m_saved_value
    s_nodes = [expr_str(sv, n["i"]) for n in sv.all_nodes() if n["k"] in ("asg", "call") and n.get("op") == "="]
    r.check(s_nodes[:2] == ["this->m_saved_value = *this->m_option()", "*this->m_option = this->m_override_value"], "save-then-override", db.loc(sv, sv.l0),
            "save_and_override changed shape: %s" % s_nodes)
    r_nodes = [expr_str(rs, n["i"]) for n in rs.all_nodes() if n["k"] in ("asg", "call") and n.get("op") == "="]
    r.check(r_nodes[:1] == ["*this->m_option = this->m_saved_value"], "restore-writes-saved", db.loc(rs, rs.l0), "restore changed shape: %s" % r_nodes)
    # callers: only save_set_options_for_QT / restore_options_for_QT
    for g, n in db.callers_of_key(sv.key):
        r.check(g.qn == "save_set_options_for_QT", "save-called-from/%s" % g.qn, db.loc(g, n), "save_and_override called from %s" % g.qn)
    for g, n in db.callers_of_key(rs.key):
        r.check(g.qn == "restore_options_for_QT", "restore-called-from/%s" % g.qn, db.loc(g, n), "restore called from %s" % g.qn)
    sq = db.fn("save_set_options_for_QT")
    rq = db.fn("restore_options_for_QT")

    def flag_stores(f, name):
        return [(expr_str(f, n["a"][1])) for n in f.all_nodes() if n["k"] == "asg" and expr_str(f, n["a"][0]) == name]
    r.check(flag_stores(sq, "QT_SIGNAL_SLOT_found") == ["true"], "save-sets-found", db.loc(sq, sq.l0), "save_set_options_for_QT does not set QT_SIGNAL_SLOT_found = true exactly once")
    r.check(flag_stores(rq, "QT_SIGNAL_SLOT_found") == ["false"] and flag_stores(rq, "restoreValues") == ["false"] and flag_stores(rq, "QT_SIGNAL_SLOT_level") == ["0"],
            "restore-clears-flags", db.loc(rq, rq.l0), "restore_options_for_QT does not clear found/restoreValues/level")
    # a second save while one is pending would record the override as the user's value (nested SIGNAL(SIGNAL(..)): found and
    # repaired on the pinned tree): save_and_override runs only under the fact that no override is pending, established in
    # save_set_options_for_QT itself or at every one of its call sites
    def no_pending(f, n):
        cs = [(expr_str(f, cn), pol) for cn, pol in f.guard_conds(f.nblock[n["i"]]) if cn is not None]
        return ("QT_SIGNAL_SLOT_found", False) in cs or ("!QT_SIGNAL_SLOT_found", True) in cs
    for g, n in db.callers_of_key(sv.key):
        inner = no_pending(g, n)
        outer = bool(db.callers_of(g.qn)) and all(no_pending(h, m) for h, m in db.callers_of(g.qn))
        r.check(inner or outer, "save-only-when-none-pending/%s" % g.qn, db.loc(g, n),
                "temporary_iarf_option::save_and_override() can run while an override is pending (no dominating test of QT_SIGNAL_SLOT_found "
                "in %s nor at all of its call sites): the saved value becomes the override and is what restore() and every later file get" % g.qn)
    for name in ("QT_SIGNAL_SLOT_found", "QT_SIGNAL_SLOT_level", "restoreValues"):
        for f in db.funcs.values():
            for n in f.nodes.values():
                if n["k"] == "asg" and expr_str(f, n["a"][0]) == name:
                    r.seen()
                    if f.key in (sq.key, rq.key):
                        continue
                    conds = [(expr_str(f, cn), pol) for cn, pol in f.guard_conds(f.nblock[n["i"]]) if cn is not None]
                    ok = name == "restoreValues" and expr_str(f, n["a"][1]) == "true" and ("QT_SIGNAL_SLOT_found", True) in conds
                    r.check(ok, "%s-written-in/%s" % (name, f.qn), db.loc(f, n), "%s is assigned in %s outside the save/restore pair (conditions %s)" % (name, f.qn, conds))
    # save and restore walk the same table in the same way: every option that is overridden is put back
    def table_loop(f, method):
        for h, body, backs in f.loops():
            t = f.blocks[h].get("term") or {}
            inside = [n for b in body for n in f.blocks[b]["n"] if n["k"] == "call" and (n.get("c") or "").endswith(method)]
            if not inside:
                continue
            rng = [expr_str(f, n["i"]) for b2 in f.blocks for n in f.blocks[b2]["n"] if n["k"] == "decl" and "__range" in expr_str(f, n["i"]).split("=")[0]]
            return (t.get("k"), tuple(sorted(set(x.split("=")[-1].strip() for x in rng))), tuple(expr_str(f, n["i"]) for n in inside))
        return None
    ls, lr = table_loop(sq, "::save_and_override"), table_loop(rq, "::restore")
    r.check(ls is not None and lr is not None and ls[0] == lr[0] == "CXXForRangeStmt" and ls[1] == lr[1] and len(ls[1]) == 1, "save-and-restore-walk-the-same-table", db.loc(rq, rq.l0),
            "save_set_options_for_QT iterates %s, restore_options_for_QT iterates %s: an entry that is overridden but not restored keeps the override "
            "for the rest of the file and for every later file" % (ls, lr))
    end = db.fn("uncrustify_end", file=UNC)
    calls = db.calls_in(end, "restore_options_for_QT")
    cs = [(expr_str(end, cn), pol) for cn, pol in end.guard_conds(end.nblock[calls[0]["i"]]) if cn is not None] if calls else []
    ok = len(calls) == 1 and ("QT_SIGNAL_SLOT_found", True) in cs and all(c == ("QT_SIGNAL_SLOT_found", True) or (c[0].endswith("IsNotNullChunk()") and c[1] is False) for c in cs)
    r.check(ok, "uncrustify_end/restores-pending-override", db.loc(end, calls[0] if calls else end.l0),
            "uncrustify_end() does not call restore_options_for_QT() under exactly `if (QT_SIGNAL_SLOT_found)`: an unclosed SIGNAL/SLOT override leaks into the next file")
    r.floor(8)


RULES = [rule_reset, rule_end_reached, rule_list_emptied, rule_qt_restore]
