"""C02.fusion-table: agreement between the punctuator table and the fusion guard of space_text().

For every language L and every ordered pair (a, b) of punctuators of L (table symbols1..6 of symbols_table.h, digraph
rows aside) that space_text()'s punctuator branch can see (both shorter than 4 characters), concatenate s = a + b and
lex it by longest match over L's lexical alphabet = punctuators of L + the comment openers `//`, `/*` (`/+` in D).
If the first token of s is longer than a, writing the two tokens without a blank changes the token stream, so
space_text() must be able to set PCF_FORCE_SPACE for (a, b): the statements between the reset of the flag and the
spacing decision are explored with three-valued conditions under the bindings

    pc->Len() = |a|, next->Len() = |b|, last character of pc = a[-1], first character of next = b[0],
    kw1 / kw2 from CharTable::chars (the table's initialiser), ct = find_punctuator(s, L) = longest prefix of s in L's
    punctuators (tag length |ct|), language_is_set(X) = (X == L), chunk types and options unknown,

and a SetFlagBits(PCF_FORCE_SPACE) must be reachable through conditions that are not definitely false.  The pair
`[` `]` (uncrustify's own pseudo punctuator `[]`) is exempt.  This is constant folding of one guard over a finite
table extracted from the source - no part of uncrustify is executed.
"""
import re
from collections import deque

from ..facts import expr_str, enum_consts
from ..eofwalk import EofWalk, I, is_int, as_bool, T, F, U

SPACE = "src/space.cpp"
LANGS = ["C", "CPP", "D", "CS", "JAVA", "OC", "VALA", "PAWN", "ECMA"]


def _tables(db):
    consts = {}
    for g in db.globals:
        if (g["qn"].startswith("e_LANG_") or g["qn"].startswith("e_FLAG_")) and (g.get("init") or {}).get("k") == "int":
            consts[g["qn"]] = g["init"]["v"]
    rows = []
    for g in db.globals:
        if g["qn"] in ("symbols1", "symbols2", "symbols3", "symbols4", "symbols5", "symbols6") and (g.get("init") or {}).get("k") == "init":
            for row in g["init"]["a"]:
                a = row.get("a") or []
                if len(a) < 3 or a[0].get("k") != "str":
                    continue
                fl = a[2]
                if fl.get("k") == "int":
                    v = fl["v"]
                elif fl.get("k") == "ref":
                    v = consts.get(fl.get("qn"))
                else:
                    v = None
                rows.append((a[0]["v"], v))
    chars = None
    for g in db.globals:
        if g["qn"] == "CharTable::chars" and (g.get("init") or {}).get("k") == "init":
            vals = [x.get("v") if x.get("k") == "int" else None for x in g["init"]["a"]]
            chars = vals
    return consts, rows, chars


class FusionEval(EofWalk):
    def __init__(self, db, f):
        EofWalk.__init__(self, db)
        self.f0 = f
        self.scopes = {f.key: None}
        self.bind = {}
        self.a = self.b = ""
        self.m = None
        self.lang = None

    def _s(self, f, i):
        """text of expression i, in the names of space_text() (parameters of a helper are replaced by its arguments)"""
        s = expr_str(f, i)
        amap = self.scopes.get(f.key)
        if amap:
            s = re.sub(r"\\b(%s)\\b" % "|".join(map(re.escape, amap)), lambda m: amap[m.group(1)], s)
        return s

    def helper(self, g, amap, depth):
        """three-valued result of a bool helper of space_text() whose chunk arguments are space_text()'s own variables"""
        if g.key in self.scopes or depth > 3:
            return U
        self.scopes[g.key] = amap
        env = {}
        rets = set()
        seen = set()
        dq = deque([g.entry])
        while dq:
            b = dq.popleft()
            if b in seen:
                continue
            seen.add(b)
            for n in g.blocks[b]["n"]:
                if n["k"] == "decl":
                    for v in n.get("vars", ()):
                        if "init" in v:
                            env[v["n"]] = self.eval(g, v["init"], env, depth + 1)
                elif n["k"] == "asg" and (g.nodes.get(n["a"][0]) or {}).get("k") == "ref":
                    env[g.nodes[n["a"][0]]["n"]] = U
                elif n["k"] == "ret" and n.get("a"):
                    rets.add(as_bool(self.eval(g, n["a"][0], env, depth + 1)))
            ss = g.succ[b]
            t = g.blocks[b].get("term")
            if t and len(ss) == 2 and t["k"] not in ("SwitchStmt", "CXXForRangeStmt") and t.get("lc", t.get("c")) is not None:
                v = as_bool(self.eval(g, t.get("lc", t.get("c")), env, depth + 1))
                if v is T:
                    ss = [ss[0]]
                elif v is F:
                    ss = [ss[1]]
            for x in ss:
                if x >= 0:
                    dq.append(x)
        del self.scopes[g.key]
        if rets == {T}:
            return T
        if rets == {F}:
            return F
        return U

    def eval(self, f, i, env, depth=0):
        n = f.nodes.get(i)
        if n is None:
            return U
        if f.key in self.scopes:
            s = self._s(f, i)
            if s in self.bind:
                return self.bind[s]
            if n["k"] == "call":
                c = n.get("c") or ""
                if c == "strcmp" and len(n.get("a", ())) == 2:
                    x, y = self._s(f, n["a"][0]), f.nodes.get(n["a"][1])
                    while y is not None and y["k"] == "cast":
                        y = f.nodes.get(y["a"][0])
                    if x == "ct->tag" and y is not None and y["k"] == "str" and self.m is not None:
                        return I(0 if self.m == y["v"] else 1)
                    return U
                if c == "strlen" and n.get("a") and self._s(f, n["a"][0]) == "ct->tag":
                    return I(len(self.m)) if self.m is not None else U
                if c.endswith("Chunk::IsString") and n.get("a") and "o" in n:
                    y = f.nodes.get(n["a"][0])
                    while y is not None and y["k"] == "cast":
                        y = f.nodes.get(y["a"][0])
                    who = self._s(f, n["o"])
                    txt = self.a if who == "pc" else (self.b if who == "next" else None)
                    if txt is not None and y is not None and y["k"] == "str":
                        return txt == y["v"]
                    return U
                if c.endswith("UncText::startswith") and n.get("a") and "o" in n:
                    y = f.nodes.get(n["a"][0])
                    while y is not None and y["k"] == "cast":
                        y = f.nodes.get(y["a"][0])
                    who = self._s(f, n["o"])
                    txt = self.a if who == "pc->GetStr()" else (self.b if who == "next->GetStr()" else None)
                    if txt is not None and y is not None and y["k"] == "str" and len(n["a"]) == 1:
                        return txt.startswith(y["v"])
                    return U
                if c == "language_is_set" and n.get("a"):
                    names = enum_consts(f, n["a"][0])
                    if len(names) == 1:
                        return next(iter(names)).replace("LANG_", "") == self.lang
                    return U
                if c.startswith("Chunk::") or c.startswith("uncrustify::options::") or c.startswith("uncrustify::Option<"):
                    return U
                g = self.db.func_of_call(f, n)
                if g is not None and "o" not in n and g.file == f.file and n.get("a"):
                    args = [self._s(f, a) for a in n["a"]]
                    ps = [p["n"] for p in g.d.get("params", ())]
                    if len(ps) == len(args) and all(a in ("pc", "next", "tmp") for a in args):
                        return self.helper(g, dict(zip(ps, args)), depth + 1)
        return EofWalk.eval(self, f, i, env, depth)


def fusion_table(ctx, r, converse=False):
    """converse=False: every fusing pair can be forced (C02).  converse=True: no pair that does not fuse is forced (C19:
    Remove gives none except where the two tokens written without a space would lex differently)."""
    db = ctx.db
    f = db.fn("space_text", file=SPACE)
    r.names(f, "pc", "next", "kw1", "kw2", "ct", "buf", "tmp")
    consts, rows, chars = _tables(db)
    r.require(len(rows) >= 90 and all(v is not None for _, v in rows), "punctuator table not extracted (%d rows)" % len(rows))
    r.require(chars is not None and len(chars) == 128 and None not in chars, "CharTable::chars not extracted")
    r.require(all(("e_LANG_" + L) in consts for L in LANGS) and "e_FLAG_DIG" in consts, "language flag constants not extracted")
    KW1, KW2 = 0x100, 0x200
    ct_f = [g for g in db.funcs.values() if g.qn in ("CharTable::IsKw1", "CharTable::IsKw2")]
    kwsrc = " ".join(expr_str(g, n["i"]) for g in ct_f for n in g.all_nodes() if n["k"] == "ret")
    r.require("KW1" in kwsrc and "KW2" in kwsrc, "CharTable::IsKw1/IsKw2 changed shape: %s" % kwsrc)
    for g in db.enums if hasattr(db, "enums") else ():
        pass
    resets = [n for n in f.all_nodes() if n["k"] == "call" and (n.get("c") or "").endswith("::ResetFlagBits") and "PCF_FORCE_SPACE" in enum_consts(f, n["i"])]
    sets = set(n["i"] for n in f.all_nodes() if n["k"] == "call" and (n.get("c") or "").endswith("::SetFlagBits") and "PCF_FORCE_SPACE" in enum_consts(f, n["i"]))
    decide = db.calls_in(f, "do_space_ensured")
    r.require(len(resets) == 1 and sets and len(decide) == 1, "space_text: reset/set/decision anchors not found")
    resets0 = resets
    reset, decide = resets[0], decide[0]
    fp = db.calls_in(f, "find_punctuator")
    r.require(len(fp) == 1 and expr_str(f, fp[0]["a"][0]) == "buf", "space_text no longer calls find_punctuator(buf, ..) exactly once")
    ev = FusionEval(db, f)

    def may_force():
        b0 = f.nblock[reset["i"]]
        start_pos = f.npos[reset["i"]] + 1
        seen = set()
        dq = deque([(b0, start_pos)])
        while dq:
            b, p = dq.popleft()
            if (b, p > 0) in seen:
                continue
            seen.add((b, p > 0))
            stop = False
            for n in f.blocks[b]["n"][p:]:
                if n["i"] in sets:
                    return True
                if n["i"] == decide["i"]:
                    stop = True
                    break
            if stop:
                continue
            ss = list(enumerate(f.succ[b]))
            t = f.blocks[b].get("term")
            if t and len(f.succ[b]) == 2 and t["k"] not in ("SwitchStmt", "CXXForRangeStmt") and t.get("lc", t.get("c")) is not None:
                v = as_bool(ev.eval(f, t.get("lc", t.get("c")), {}))
                if v is T:
                    ss = [ss[0]]
                elif v is F:
                    ss = [ss[1]]
            for i, s in ss:
                if s >= 0:
                    dq.append((s, 0))
        return False

    n_pairs = n_risk = 0
    bad = {}
    for L in LANGS:
        bit = consts["e_LANG_" + L]
        P = sorted(set(s for s, v in rows if v & bit and not (v & consts["e_FLAG_DIG"]) and s and s != "\x0c"))
        Pset = set(P)
        lex = set(P) | {"//", "/*"} | ({"/+"} if L == "D" else set())
        short = [s for s in P if len(s) < 4]
        ev.lang = L
        for a in short:
            for b in short:
                n_pairs += 1
                s = a + b
                m_lex = max((x for x in lex if s.startswith(x)), key=len, default=None)
                fuses = not (m_lex is None or len(m_lex) <= len(a) or m_lex == "[]")
                if fuses == converse:
                    continue
                n_risk += 1
                m = max((x for x in Pset if s[:6].startswith(x)), key=len, default=None)
                ev.a, ev.b, ev.m = a, b, m
                la, fb = ord(a[-1]), ord(b[0])
                kw1 = bool(chars[la] & KW2) if la < 128 else True
                kw2 = bool(chars[fb] & KW1) if fb < 128 else True
                ev.bind = {"pc->Len()": I(len(a)), "next->Len()": I(len(b)), "tmp->Len()": I(len(b)), "tmp->IsNotNullChunk()": T,
                           "tmp->IsNewline()": F, "kw1": kw1, "kw2": kw2, "ct": I(1 if m is not None else 0),
                           "pc->GetStr()[pc->Len() - 1]": I(la), "next->GetStr()[0]": I(fb), "cpd.lang_flags": I(bit)}
                if converse and kw1 and kw2:
                    n_risk -= 1
                    continue                      # two word characters: the word/word exception of the property
                if may_force() == converse:
                    bad.setdefault((a, b, m_lex, m), []).append(L)
    r.seen(n_pairs)
    r.require(n_risk >= 200, "only %d fusing punctuator pairs found: table or lexer model lost" % n_risk)
    if converse:
        for (a, b, m_lex, m), Ls in sorted(bad.items()):
            r.fail("space_text/`%s` `%s`" % (a, b), db.loc(f, resets[0]), "punctuators `%s` and `%s` written without a blank still lex as `%s` then `%s` "
                   "(languages %s), but a SetFlagBits(PCF_FORCE_SPACE) is reachable for this pair: ensure_force_space() turns a configured "
                   "remove into force for it" % (a, b, a, b, ",".join(Ls)))
        if not bad:
            r.ok("space_text/no-other-pair-is-forced", db.loc(f, fp[0]), "%d non-fusing pairs of %d punctuator pairs over %d languages" % (n_risk, n_pairs, len(LANGS)))
        r.note("punctuator pairs: %d, not fusing: %d, forced all the same: %d" % (n_pairs, n_risk, len(bad)))
        return
    for (a, b, m_lex, m), Ls in sorted(bad.items()):
        r.fail("space_text/`%s` `%s`" % (a, b), db.loc(f, fp[0]), "punctuators `%s` and `%s` written without a blank lex as `%s`… (languages %s), but no "
               "SetFlagBits(PCF_FORCE_SPACE) is reachable for this pair (find_punctuator gives `%s`): a sp_ option set to remove fuses them"
               % (a, b, m_lex, ",".join(Ls), m))
    if not bad:
        r.ok("space_text/all-fusing-pairs-can-force", db.loc(f, fp[0]), "%d fusing pairs of %d punctuator pairs over %d languages" % (n_risk, n_pairs, len(LANGS)))
    r.note("punctuator pairs: %d, fusing: %d, unprotected: %d" % (n_pairs, n_risk, len(bad)))
