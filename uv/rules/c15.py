"""C15 Configuration round-trips: a saved config reloads to the same settings.

Decided (writer/reader table agreement and routing): every directive the writers emit is one the loader dispatches on;
for each enumerated option type convert_string(to_string(v)) = v and the advertised value lists are accepted; string
values are written with exactly the characters escaped that the reader treats specially inside quotes; the writer
skips an option only under `minimal`; every declared option is registered once under its own lower-case name; option
values are stored only by the reader functions, reset and the Qt override / detect module.
Not decided: that two configurations with equal option values format identically (that is C10), numeric formatting of
strtol/printf, include-path resolution.
"""
import re

from ..facts import expr_str, walk, callee_names, OPT_NS
from .common_io import UNC

OPT = "src/option.cpp"


def _str_args(f, n):
    return [f.nodes[a]["v"] for a in n.get("a", ()) if f.nodes.get(a, {}).get("k") == "str"]


def rule_directive_agreement(ctx):
    db = ctx.db
    r = ctx.rule("directive-agreement", "first word of every line format printed by print_custom_keywords/print_extensions is a directive "
                 "that process_option_line compares `cmd` with")
    pol = db.fn("uncrustify::process_option_line", file=OPT)
    R = set()
    for n in pol.all_nodes():
        if n["k"] == "call" and n.get("op") == "==":
            ops = [n.get("o")] + list(n.get("a", ())) if "o" in n else list(n.get("a", ()))
            txt = [expr_str(pol, o) for o in ops if o is not None]
            if "cmd" in txt:
                for o in ops:
                    m = pol.nodes.get(o)
                    if m is not None and m["k"] == "str":
                        R.add(m["v"])
    r.require(len(R) >= 8, "only %d directives recognised in process_option_line: %s" % (len(R), sorted(R)))
    W = []
    for qn, file in (("print_custom_keywords", "src/keywords.cpp"), ("print_extensions", "src/language_names.cpp")):
        f = db.fn(qn, file=file)
        for n in db.calls_in(f, "fprintf"):
            fmt = f.nodes.get(n["a"][1])
            if fmt is None or fmt["k"] != "str":
                continue
            m = re.match(r"([A-Za-z_\-]+)[ %]", fmt["v"])
            if m:
                W.append((f, n, m.group(1), fmt["v"]))
    r.require(len(W) >= 6, "only %d directive formats found in the writers" % len(W))
    for f, n, word, fmt in W:
        r.seen()
        r.check(word in R, "%s/%s" % (f.qn, word), db.loc(f, n), "writer emits a line starting with `%s` (format %r) but the loader only dispatches on %s" % (word, fmt, sorted(R)))
    # the writer's keyword kinds are exactly the ones the loader's add_keyword calls produce
    kinds_r = set()
    for n in db.calls_in(pol, "add_keyword"):
        kinds_r.add(expr_str(pol, n["a"][1]))
    pk = db.fn("print_custom_keywords", file="src/keywords.cpp")
    kinds_w = set()
    for b, blk in pk.blocks.items():
        t = blk.get("term")
        if t:
            s = expr_str(pk, t.get("lc", t.get("c")))
            m = re.match(r"tt == (CT_\w+)", s)
            if m:
                kinds_w.add(m.group(1))
    r.check(kinds_w >= {"CT_TYPE", "CT_MACRO_OPEN", "CT_MACRO_CLOSE", "CT_MACRO_ELSE"} and kinds_w <= kinds_r | {"token"},
            "keyword-kinds", db.loc(pk, pk.l0), "keyword kinds differ: writer %s reader %s" % (sorted(kinds_w), sorted(kinds_r)))
    r.floor(7)


def _convert_tables(db):
    """type -> {lower-case literal: constant}  from convert_string(const char*, T&)"""
    out = {}
    for f in db.fns("uncrustify::convert_string"):
        ps = f.d["params"]
        if len(ps) != 2:
            continue
        T = ps[1]["t"].replace("uncrustify::", "").replace(" &", "").strip()
        tab = {}
        ok = True
        nsucc = 0
        for b in sorted(f.blocks, reverse=True):       # source order: the first matching spelling wins
            blk = f.blocks[b]
            t = blk.get("term")
            if not t or t["k"] != "IfStmt":
                continue
            c = f.nodes.get(t.get("lc", t.get("c")))
            if c is None or c["k"] != "bin" or c["op"] != "==":
                continue
            call = f.nodes.get(c["a"][0])
            if call is None or call["k"] != "call" or call.get("c") not in ("strcasecmp", "strcmp"):
                continue
            lit = f.nodes.get(call["a"][1])
            tgt = f.succ[b][0]
            stores = [n for n in f.blocks[tgt]["n"] if n["k"] == "asg" and expr_str(f, n["a"][0]) == ps[1]["n"]]
            rets = [n for n in f.blocks[tgt]["n"] if n["k"] == "ret"]
            if lit is None or lit["k"] != "str" or len(stores) != 1 or len(rets) != 1 or expr_str(f, rets[0]["i"]) != "return true":
                ok = False
                continue
            nsucc += 1
            tab.setdefault(lit["v"].lower(), expr_str(f, stores[0]["a"][1]))
        # no store outside the success blocks
        nstores = sum(1 for n in f.all_nodes() if n["k"] == "asg" and expr_str(f, n["a"][0]) == ps[1]["n"])
        out[T] = (f, tab, ok and nstores == nsucc)
    return out


def _tostring_tables(db):
    out = {}
    for f in db.fns("uncrustify::to_string"):
        ps = f.d["params"]
        if len(ps) != 1 or ps[0]["t"].startswith("const std"):
            continue
        T = ps[0]["t"].replace("uncrustify::", "").strip()
        tab = {}
        for b, blk in f.blocks.items():
            lab = blk.get("lab", {})
            if not lab.get("case"):
                continue
            rets = [n for n in blk["n"] if n["k"] == "ret"]
            if len(rets) == 1 and rets[0].get("a") and f.nodes[rets[0]["a"][0]]["k"] == "str":
                for c in lab["case"]:
                    tab[c] = f.nodes[rets[0]["a"][0]]["v"]
        if tab:
            out[T] = (f, tab)
    return out


def rule_enum_tables(ctx):
    db = ctx.db
    r = ctx.rule("enum-tables", "for bool/iarf_e/line_end_e/token_pos_e: convert_string(to_string(v)) = v for every enumerator, stores only "
                 "on the success paths, and every advertised *_values[] entry is accepted")
    conv = _convert_tables(db)
    tos = _tostring_tables(db)
    need = {"bool", "iarf_e", "line_end_e", "token_pos_e"}
    r.require(need <= set(conv) and need <= set(tos), "convert_string/to_string tables missing for %s" % sorted(need - (set(conv) & set(tos))))
    norm = {"1": "true", "0": "false"}
    for T in sorted(need):
        f, ctab, clean = conv[T]
        g, ttab = tos[T]
        r.check(clean, "%s/convert-stores-only-on-success" % T, db.loc(f, f.l0), "convert_string(%s) stores its result outside a `return true` block" % T)
        # all enumerators covered by to_string
        en = db.enums.get("uncrustify::" + T)
        if en:
            names = set(e[0] for e in en["e"])
            prefix = {"iarf_e": "IARF_", "line_end_e": "LE_", "token_pos_e": "TP_"}[T]
            covered = set(k[len(prefix):] if k.startswith(prefix) else k for k in ttab)
            r.check(names <= covered, "%s/to_string-covers-enum" % T, db.loc(g, g.l0), "to_string(%s) lacks %s" % (T, sorted(names - covered)))
        for v, s in sorted(ttab.items()):
            r.seen()
            back = ctab.get(s.lower())
            vv = norm.get(v, v)
            r.check(back == vv, "%s/%s" % (T, vv), db.loc(g, g.l0), "to_string(%s) = %r but convert_string(%r) = %s" % (vv, s, s, back))
    for arr, T in (("iarf_values", "iarf_e"), ("line_end_values", "line_end_e"), ("token_pos_values", "token_pos_e")):
        gv = [x for x in db.globals if x["qn"] == "uncrustify::" + arr and x.get("init")]
        r.require(len(gv) == 1, "global %s not found" % arr)
        vals = [a["v"] for a in gv[0]["init"].get("a", []) if a and a.get("k") == "str"]
        r.require(len(vals) >= 3, "%s has %d entries" % (arr, len(vals)))
        for v in vals:
            r.seen()
            r.check(v.lower() in conv[T][1], "%s/%s" % (arr, v), "%s:%d" % (gv[0]["file"], gv[0]["l"]), "advertised value %r of %s is not accepted by convert_string" % (v, T))
    r.floor(30)


def rule_string_escape_agreement(ctx):
    db = ctx.db
    r = ctx.rule("string-escape-agreement", "save_option_file writes string values between double quotes with exactly the characters "
                 "escaped (by a preceding backslash) that split_args treats specially inside a quoted argument: the quote itself and backslash")
    sa = db.fn("uncrustify::(anonymous namespace)::split_args", file=OPT)
    quotes = None
    for n in db.calls_in(sa, "strchr"):
        lit = sa.nodes.get(n["a"][0])
        if lit is not None and lit["k"] == "str":
            quotes = lit["v"]
    r.require(quotes is not None and '"' in quotes, "split_args' quote set not found")
    esc = set(n["v"] for n in sa.all_nodes() if n["k"] == "chr" and any(p for p in sa.parents().get(n["i"], ()) if sa.nodes[p]["k"] == "bin" and sa.nodes[p]["op"] == "=="))
    esc -= {35}          # '#' starts a comment outside quotes
    r.require(esc == {92}, "split_args' escape characters are %s (expected backslash only)" % sorted(esc))
    so = db.fn("uncrustify::save_option_file", file=OPT)
    prints = []
    for n in db.calls_in(so, "fprintf"):
        fmt = so.nodes.get(n["a"][1])
        if fmt is not None and fmt["k"] == "str" and fmt["v"] == '"%s"':
            prints.append(n)
    r.require(len(prints) == 1, "save_option_file: %d prints of a quoted string value" % len(prints))
    p = prints[0]
    conds = [(expr_str(so, cn), pol) for cn, pol in so.guard_conds(so.nblock[p["i"]]) if cn is not None]
    r.check(any(c.startswith("option->type() ==") and pol is True for c, pol in conds), "save_option_file/quoted-only-for-strings", db.loc(so, p), "quoted print not under the OT_STRING test")
    arg = expr_str(so, p["a"][2])
    root = arg.split(".")[0]
    r.check(root != "val", "save_option_file/value-is-escaped", db.loc(so, p),
            "the string value is printed verbatim (`%s`): a backslash or double quote inside it is lost or ends the argument when the file is loaded" % arg)
    # the escaped copy: appended to char by char, with '\\' appended under (ch == '\\' || ch == '"')
    need = {92, 34}
    found = set()
    pref_ok = False
    for n in so.all_nodes():
        if n["k"] == "call" and n.get("op") == "+=" and expr_str(so, n.get("o")) == root:
            a = so.nodes.get(n["a"][0])
            if a is not None and a["k"] == "chr" and a["v"] == 92:
                cs = so.guard_conds(so.nblock[n["i"]])
                for cn, pol in cs:
                    for x in walk(so, cn):
                        if x["k"] == "chr":
                            found.add(x["v"])
                pref_ok = True
    if root != "val":
        r.check(pref_ok and need <= found and found <= need, "save_option_file/escapes-exactly-specials", db.loc(so, p),
                "escaped characters %s differ from what the reader needs %s" % (sorted(found), sorted(need)))
    r.floor(2)


def rule_all_written(ctx):
    db = ctx.db
    r = ctx.rule("all-written", "save_option_file skips an option only under `minimal` (and default value); every option object is defined "
                 "with its own lower-case identifier as name and registered exactly once")
    so = db.fn("uncrustify::save_option_file", file=OPT)
    names = [n for n in db.calls_in(so, "fprintf") if so.nodes.get(n["a"][1], {}).get("v", "").startswith("%s%*.s= ")]
    r.require(len(names) == 1, "the `name = ` print of save_option_file was not found")
    P = names[0]
    strs = [n for n in so.all_nodes() if n["k"] == "call" and (n.get("c") or "").endswith("GenericOption::str")]
    r.require(len(strs) == 1, "option->str() call not found")

    def edge_ok(b, i):
        t = so.blocks[b].get("term")
        if t:
            c = t.get("lc", t.get("c"))
            if c is not None and expr_str(so, c) == "minimal":
                return i == 1
        return True
    # from reading the value to the next iteration without printing the name
    hdr = [b for b, blk in so.blocks.items() if blk.get("term") and blk["term"]["k"] == "CXXForRangeStmt" and so.dominates_block(b, so.nblock[P["i"]])]
    inner = max(hdr, key=lambda b: len([1 for h in hdr if so.dominates_block(h, b)])) if hdr else None
    r.require(inner is not None, "option loop not found")
    w = so.paths_avoiding(strs[0]["i"], lambda n: so.nblock[n["i"]] == inner, lambda n: n["i"] == P["i"], edge_ok=edge_ok)
    r.check(w is None, "save_option_file/skip-only-if-minimal", db.loc(so, strs[0]), "an option can be skipped by the writer without `minimal`",
            path=["%s:%d" % (so.file, l) for l in so.path_lines(w[0])] if w else None)
    # the printed value is option->str(), the name option->name()
    r.check(expr_str(so, P["a"][2]) == "option->name()", "save_option_file/prints-name", db.loc(so, P), "name print uses %s" % expr_str(so, P["a"][2]))
    # option objects
    opts = [g for g in db.globals if g["qn"].startswith(OPT_NS) and g.get("def")]
    decls = [g for g in db.globals if g["qn"].startswith(OPT_NS) and not g.get("def")]
    r.require(len(opts) >= 800, "only %d option definitions found" % len(opts))
    bad = []
    for g in opts:
        r.seen()
        init = g.get("init") or {}
        a = init.get("a") or []
        nm = a[0].get("v") if a and a[0] and a[0].get("k") == "str" else None
        if nm != g["n"] or g["n"] != g["n"].lower():
            bad.append((g["n"], nm))
    r.check(not bad, "option-names", None, "option objects whose registered name differs from their lower-case identifier: %s" % bad[:5])
    dn = set(g["n"] for g in decls)
    on = set(g["n"] for g in opts)
    r.check(dn == on, "declared==defined", None, "options.h declarations and generated definitions differ: %s" % sorted(dn ^ on)[:6])
    regs = []
    for f in db.funcs.values():
        for n in f.nodes.values():
            if n["k"] == "call" and n.get("c") == "uncrustify::register_option":
                regs.append(expr_str(f, n["a"][0]).replace("&options::", ""))
    r.check(sorted(regs) == sorted(on), "registered-once", None, "register_option calls (%d) differ from option objects (%d): %s"
            % (len(regs), len(on), sorted(set(regs) ^ on)[:6]))
    # lookup lower-cases
    fo = db.fn("uncrustify::find_option", file=OPT)
    r.check(any("to_lower" in (n.get("c") or "") for n in fo.all_nodes()),
            "find_option/lower-cases", db.loc(fo, fo.l0), "find_option no longer lower-cases the name")
    r.floor(5)


def rule_one_reader(ctx):
    db = ctx.db
    r = ctx.rule("one-reader", "Option<T>::m_val is stored only by read/read_enum/read_number/convert_string(by reference), reset and "
                 "operator=; operator= is called only from the Qt override and detect.cpp; --set and the file loader both go through GenericOption::read")
    allowed_fn = ("read_enum", "read_number", "::read", "::reset", "::operator=", "Option<")
    n_st = 0
    for f in db.funcs.values():
        for n in f.nodes.values():
            tgt = None
            if n["k"] == "asg":
                tgt = f.nodes.get(n["a"][0])
            elif n["k"] == "call" and n.get("op") == "=" and "o" in n:
                tgt = f.nodes.get(n["o"])
            if tgt is not None and tgt["k"] == "mem" and tgt["n"] == "m_val" and "Option" in tgt.get("qn", ""):
                n_st += 1
                r.seen()
                ok = any(a in f.qn for a in allowed_fn)
                r.check(ok, "m_val-stored-in/%s" % f.qn.split("<")[0], db.loc(f, n), "option value stored in %s" % f.qn)
    r.require(n_st >= 8, "only %d stores to Option::m_val found" % n_st)
    for f in db.funcs.values():
        for n in f.nodes.values():
            if n["k"] == "call" and (n.get("c") or "").startswith("uncrustify::Option<") and (n.get("c") or "").endswith("::operator="):
                r.seen()
                r.check(f.file in ("src/options_for_QT.cpp", "src/detect.cpp"), "option-assigned-in/%s" % f.file, db.loc(f, n), "Option::operator= used in %s (%s)" % (f.qn, f.file))
    m = db.fn("main", file=UNC)
    rd = [n for n in m.all_nodes() if n["k"] == "call" and (n.get("c") or "").endswith("GenericOption::read")]
    r.check(len(rd) == 1 and "--set" in "".join(expr_str(m, cn) for cn, pol in m.guard_conds(m.nblock[rd[0]["i"]]) if cn is not None),
            "main/--set-uses-read", db.loc(m, rd[0] if rd else m.l0), "the --set loop does not call GenericOption::read")
    pol = db.fn("uncrustify::process_option_line", file=OPT)
    rd2 = [n for n in pol.all_nodes() if n["k"] == "call" and (n.get("c") or "").endswith("GenericOption::read")]
    r.check(len(rd2) == 1, "process_option_line/uses-read", db.loc(pol, pol.l0), "the file loader does not call GenericOption::read exactly once")
    r.floor(10)


def rule_ext_map_domain(ctx):
    """file_ext mappings: print_extensions() writes an entry only if its stored language text is strcmp-equal to a
    language_names[].name; so the value stored by the reader must come from that table (language_name_from_flags),
    not from the user's spelling, which is matched case-insensitively."""
    db = ctx.db
    from ..flow import ReachingDefs, var_id
    r = ctx.rule("ext-map-domain", "every value stored into g_ext_map is the result of language_name_from_flags() (the canonical table name) "
                 "and print_extensions() selects entries by comparing with language_names[].name: stored domain = written domain")
    LN = "src/language_names.cpp"
    stores = []
    for f in db.funcs.values():
        for n in f.nodes.values():
            if n["k"] == "call" and n.get("op") in ("=", "+=") and "o" in n and expr_str(f, n["o"]).startswith("g_ext_map["):
                stores.append((f, n))
            elif n["k"] == "call" and (n.get("c") or "").split("::")[-1] in ("insert", "emplace", "insert_or_assign", "try_emplace") and "o" in n and expr_str(f, n["o"]) == "g_ext_map":
                stores.append((f, n))
    r.require(stores, "no store into g_ext_map found")
    for f, n in stores:
        r.seen()
        ok = False
        v = f.nodes.get(n["a"][0]) if n.get("a") else None
        while v is not None and v["k"] in ("cast", "ctor") and v.get("a"):
            v = f.nodes.get(v["a"][0])
        src = "?"
        if v is not None and v["k"] == "call":
            src = v.get("c")
            ok = v.get("c") == "language_name_from_flags"
        elif v is not None and v["k"] == "ref" and v.get("d") in ("lv",):
            rd = ReachingDefs(f, db)
            defs = list(rd.at(n["i"], var_id(v)))
            rhss = [rd.rhs_of(i) for i in defs]
            calls = []
            for x in rhss:
                y = f.nodes.get(x) if x is not None else None
                while y is not None and y["k"] == "cast" and y.get("a"):
                    y = f.nodes.get(y["a"][0])
                calls.append(y.get("c") if y is not None and y["k"] == "call" else None)
            src = calls
            ok = bool(calls) and all(c == "language_name_from_flags" for c in calls)
        elif v is not None:
            src = expr_str(f, v["i"])
        r.check(ok, "%s/g_ext_map-store" % f.qn, db.loc(f, n), "g_ext_map receives `%s` (from %s), not the canonical name returned by "
                "language_name_from_flags(): print_extensions() compares with strcmp against the table and silently omits any other spelling"
                % (expr_str(f, n["a"][0]) if n.get("a") else "?", src))
    pe = db.fn("print_extensions", file=LN)
    cmp_ok = any(n["k"] == "call" and n.get("c") == "strcmp" and "language.name" in [expr_str(pe, a) for a in n.get("a", ())] for n in pe.all_nodes())
    r.check(cmp_ok, "print_extensions/selects-by-table-name", db.loc(pe, pe.l0), "print_extensions no longer selects entries by strcmp with language_names[].name")
    # the writer visits every entry: in the loop over g_ext_map nothing can skip an entry before the strcmp selection
    cmp_blocks = [b for b, blk in pe.blocks.items() if any(n["k"] == "call" and n.get("c") == "strcmp" for n in blk["n"])]
    inner = [(h, body, backs) for h, body, backs in pe.loops() if any(b in body for b in cmp_blocks)]
    if r.check(bool(inner), "print_extensions/entry-loop", db.loc(pe, pe.l0), "the loop over g_ext_map was not found"):
        h, body, backs = min(inner, key=lambda x: len(x[1]))
        cb = [b for b in cmp_blocks if b in body][0]
        skip = [b for b in backs if not pe.dominates_block(cb, b)]
        # a back edge that the selection does not dominate = an entry skipped before it was compared
        r.check(not skip, "print_extensions/no-entry-skipped", db.loc(pe, pe.blocks[skip[0]]["n"][0] if skip and pe.blocks[skip[0]]["n"] else pe.l0),
                "print_extensions() can go on to the next g_ext_map entry without comparing the current one with the language table: that "
                "mapping is missing from the written configuration")
    lf = db.fn("language_name_from_flags", file=LN)
    rets = [n for n in lf.all_nodes() if n["k"] == "ret" and n.get("a")]
    r.check(any(expr_str(lf, n["a"][0]) == "language_name.name" for n in rets), "language_name_from_flags/returns-table-name", db.loc(lf, lf.l0),
            "language_name_from_flags no longer returns language_names[].name for an exact match")
    r.floor(3)


def rule_line_verbatim(ctx):
    """comment stripping and quoting are the business of split_args() alone (quote aware); load_option_file must hand
    each line to process_option_line as it was read."""
    db = ctx.db
    r = ctx.rule("line-verbatim", "load_option_file passes each line read by std::getline to process_option_line without applying any "
                 "mutating std::string operation to it (a '#' inside a quoted value must reach the quote-aware splitter)")
    f = db.fn("uncrustify::load_option_file", file=OPT)
    calls = db.calls_in(f, "uncrustify::process_option_line")
    r.require(len(calls) == 1, "load_option_file: %d process_option_line calls" % len(calls))
    var = expr_str(f, calls[0]["a"][0])
    gl = [n for n in f.all_nodes() if n["k"] == "call" and (n.get("c") or "").startswith("std::getline") and var in [expr_str(f, a) for a in n.get("a", ())]]
    r.require(gl, "the std::getline(in, %s) that fills the line was not found" % var)
    MUT = ("erase", "resize", "pop_back", "push_back", "append", "assign", "replace", "insert", "clear", "operator=", "operator+=", "swap", "operator[]", "at", "front", "back", "begin", "end", "data")
    n_ops = 0
    for n in f.all_nodes():
        if n["k"] == "call" and "o" in n and expr_str(f, n["o"]) == var:
            meth = (n.get("c") or "").split("::")[-1]
            n_ops += 1
            r.seen()
            if meth in MUT and not n.get("cq"):
                # reads through operator[] on a non-const string are tolerated only as rvalues (not assigned to)
                ps = f.parents().get(n["i"], [])
                written = any(f.nodes[p]["k"] == "asg" and f.nodes[p]["a"][0] == n["i"] for p in ps) or meth not in ("operator[]", "at", "front", "back", "begin", "end", "data")
                r.check(not written, "load_option_file/%s.%s" % (var, meth), db.loc(f, n),
                        "load_option_file modifies the line (`%s`) before the quote-aware parser sees it" % expr_str(f, n["i"])[:80])
        if n["k"] == "asg" and expr_str(f, n["a"][0]).startswith(var + "["):
            r.check(False, "load_option_file/%s[]=" % var, db.loc(f, n), "load_option_file overwrites a character of the line")
    r.ok("load_option_file/line-passed-on", db.loc(f, calls[0]), "%d read-only uses of `%s`" % (n_ops, var))
    r.floor(1)


def rule_number_whole_and_fits(ctx):
    """`opt = -other_opt` must load as the negated value of the other option (shared with C16)"""
    from . import c16
    c16.rule_number_whole_and_fits(ctx)


RULES = [rule_directive_agreement, rule_enum_tables, rule_string_escape_agreement, rule_all_written, rule_one_reader, rule_ext_map_domain, rule_line_verbatim, rule_number_whole_and_fits]
