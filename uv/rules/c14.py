"""C14 The backup always holds the last text uncrustify did not write itself.

Decided: the protocol's ordering (md5 recorded only after the formatted file is installed, on every path), the
skip guard of backup_copy_file (backup written iff recorded md5 differs from md5 of the bytes read) and the
agreement between the md5 writer's and reader's formats.
Not decided: MD5 arithmetic itself; behaviour when the md5 file is edited by hand.
"""
import re

from ..facts import expr_str, walk, callee_names
from ..flow import ReachingDefs, var_id
from .common_io import *

BK = "src/backup.cpp"


def rule_md5_after_install(ctx):
    db = ctx.db
    r = ctx.rule("md5-after-install", "every path to backup_create_md5_file(filename_in) in do_source_file passes the rename onto "
                 "filename_out or the no-change unlink; after an install with need_backup the md5 is always written")
    f = db.fn("do_source_file", file=UNC)
    r.names(f, "pfout", "filename_in", "filename_out", "filename_tmp", "need_backup", "did_open")
    md5 = db.calls_in(f, "backup_create_md5_file")
    r.require(md5, "do_source_file does not call backup_create_md5_file")
    installs = [n for n in f.all_nodes() if n["k"] == "call" and n.get("c") in ("rename", "MoveFileEx", "MoveFileExA", "unlink")]
    r.require(installs, "no rename/unlink in do_source_file")
    inst_ids = set(n["i"] for n in installs)
    for m in md5:
        r.seen()
        r.check(expr_str(f, m["a"][0]) == "filename_in", "do_source_file/md5-of-input-path", db.loc(f, m),
                "backup_create_md5_file must describe the in-place file (filename_in), got %s" % expr_str(f, m["i"]))
        # The call is controlled by need_backup, a flag whose only `true` assignment sits behind the in==out
        # test and the temp-suffix append; every feasible path to the call therefore starts at such an assignment,
        # and on it `filename_tmp != filename_out` is true (non-empty literal appended to a copy of filename_out,
        # never reassigned afterwards - both facts are checked here).
        sets_true = [n for n in f.all_nodes() if n["k"] == "asg" and expr_str(f, n["a"][0]) == "need_backup"
                     and f.nodes[n["a"][1]]["k"] == "bool" and f.nodes[n["a"][1]]["v"] == 1]
        other_sets = [n for n in f.all_nodes() if n["k"] in ("asg", "un") and n.get("a") and expr_str(f, n["a"][0]) == "need_backup" and n not in sets_true]
        decl_false = [v for n in f.all_nodes() if n["k"] == "decl" for v in n["vars"] if v["n"] == "need_backup" and "init" in v
                      and f.nodes[v["init"]]["k"] == "bool" and f.nodes[v["init"]]["v"] == 0]
        r.check(bool(sets_true) and not other_sets and bool(decl_false), "do_source_file/need_backup-is-a-latch", db.loc(f, m),
                "need_backup is no longer `false` initially with only `= true` assignments")
        appends = [n for n in f.all_nodes() if n["k"] == "call" and n.get("op") == "+=" and expr_str(f, n.get("o")) == "filename_tmp"
                   and f.nodes[n["a"][0]]["k"] == "str" and f.nodes[n["a"][0]]["v"]]
        reassign = lambda n: n["k"] == "call" and n.get("op") in ("=", "+=") and expr_str(f, n.get("o")) == "filename_tmp"
        for st in sets_true:
            lemma = any(f.dominates(a["i"], st["i"]) and f.paths_avoiding(a["i"], reassign, lambda n: False) is None for a in appends)

            def edge_ok(b, i, lemma=lemma):
                t = f.blocks[b].get("term")
                if lemma and t:
                    c = t.get("lc", t.get("c"))
                    if c is not None and expr_str(f, c) == "filename_tmp != filename_out":
                        return i == 0
                return True
            w = f.paths_avoiding(st["i"], lambda n: n["i"] == m["i"], lambda n: n["i"] in inst_ids, edge_ok=edge_ok)
            r.check(w is None, "do_source_file/md5-after-install", db.loc(f, m),
                    "backup_create_md5_file() is reachable before the formatted file is installed: the md5 then describes the "
                    "original text and the next run overwrites the backup with uncrustify's own output",
                    path=["%s:%d" % (f.file, l) for l in f.path_lines(w[0])] if w else None)
        conds = [(expr_str(f, cn), pol) for cn, pol in f.guard_conds(f.nblock[m["i"]]) if cn is not None]
        r.check(("need_backup", True) in conds, "do_source_file/md5-only-with-backup", db.loc(f, m),
                "backup_create_md5_file is not controlled by need_backup")
    # need_backup is set only after a successful backup_copy_file
    rd = ReachingDefs(f, db)
    sets = [n for n in f.all_nodes() if n["k"] == "asg" and expr_str(f, n["a"][0]) == "need_backup"]
    r.require(sets, "need_backup is never assigned")
    bks = db.calls_in(f, "backup_copy_file")
    for s in sets:
        r.seen()
        r.check(any(f.dominates(b["i"], s["i"]) for b in bks), "do_source_file/need_backup-after-backup", db.loc(f, s),
                "need_backup is set on a path that did not run backup_copy_file")

    def edge_ok(b, i):
        t = f.blocks[b].get("term")
        if t:
            c = t.get("lc", t.get("c"))
            if c is not None and expr_str(f, c) == "need_backup":
                return i == 0
        return True
    for n in installs:
        r.seen()
        p = f.exit_reachable_avoiding(n["i"], lambda x: is_call(x, "backup_create_md5_file") or is_exit_call(x))
        # the only md5-free way out after an install may be the need_backup == false edge
        if p is not None:
            # re-check with that edge removed
            p2 = _exit_avoiding_edges(f, n["i"], lambda x: is_call(x, "backup_create_md5_file") or is_exit_call(x), edge_ok)
        else:
            p2 = None
        r.check(p2 is None, "do_source_file/md5-follows-%s" % n["c"], db.loc(f, n),
                "after the file is installed the function can return without recording its md5 although a backup was made",
                path=["%s:%d" % (f.file, l) for l in f.path_lines(p2)] if p2 else None)
    r.floor(5)


def _exit_avoiding_edges(f, start, is_barrier, edge_ok):
    from collections import deque
    b0, p0 = f.nblock[start], f.npos[start] + 1
    seen = set()
    dq = deque([(b0, p0, (b0,))])
    first = True
    while dq:
        b, p, path = dq.popleft()
        if not first:
            if b in seen:
                continue
            seen.add(b)
        first = False
        if b == f.exit:
            return list(path)
        if any(is_barrier(n) for n in f.blocks[b]["n"][p:]):
            continue
        for i, s in enumerate(f.succ[b]):
            if s >= 0 and s not in seen and edge_ok(b, i):
                dq.append((s, 0, path + (s,)))
    return None


def rule_skip_guard(ctx):
    db = ctx.db
    r = ctx.rule("skip-guard", "backup_copy_file writes the backup iff memcmp(md5 of the bytes read, recorded md5, 32) != 0; the "
                 "computed md5 comes from MD5::Calc over the data parameter; the recorded one only from the md5 file")
    g = db.fn("backup_copy_file", file=BK)
    opens = [n for n in g.all_nodes() if is_write_open(g, n)]
    r.require(len(opens) >= 1, "backup_copy_file has no write-mode open")
    for o in opens:
        r.seen()
        conds = [(expr_str(g, cn), pol) for cn, pol in g.guard_conds(g.nblock[o["i"]]) if cn is not None]
        ok = ("memcmp(md5_str, md5_str_in, 32) == 0", False) in conds or ("memcmp(md5_str_in, md5_str, 32) == 0", False) in conds \
            or ("memcmp(md5_str, md5_str_in, 32) != 0", True) in conds
        r.check(ok, "backup_copy_file/backup-iff-md5-differs", db.loc(g, o),
                "the backup write is not controlled by memcmp(md5_str, md5_str_in, 32) != 0; controlling conditions: %s" % conds)
        # nothing else may skip the backup: the only controlling conditions are the memcmp test (and logging)
        # ... a guard whose other edge cannot reach a return (it ends in exit()) skips nothing: the run stops there
        def stops(cn, pol):
            for b, blk in g.blocks.items():
                t = blk.get("term")
                if t and t.get("lc", t.get("c")) is not None and len(g.succ[b]) == 2 and expr_str(g, t.get("lc", t.get("c"))) == cn:
                    other = g.succ[b][1 if pol else 0]
                    if other >= 0 and g.paths_avoiding(other, lambda n: n["k"] == "ret", lambda n: is_call(n, "exit"), start_is_node=False) is None:
                        return True
            return False
        others = [c for c in conds if "memcmp" not in c[0] and "log_sev_on" not in c[0] and not stops(c[0], c[1])]
        r.check(not others, "backup_copy_file/no-other-skip", db.loc(g, o), "the backup write is also controlled by %s" % others)
    # the matching edge returns EX_OK (0) without any write
    for b, blk in g.blocks.items():
        t = blk.get("term")
        if t and "memcmp" in expr_str(g, t.get("lc", t.get("c"))):
            c = g.nodes[t.get("lc", t.get("c"))]
            match_edge = 0 if c["op"] == "==" else 1
            w = g.paths_avoiding(g.succ[b][match_edge], lambda n: is_write_open(g, n) or is_call(n, "fwrite"), lambda n: n["k"] == "ret", start_is_node=False)
            r.check(w is None, "backup_copy_file/match-writes-nothing", db.loc(g, t["l"]), "on an md5 match the function still writes")
    # provenance of md5_str: snprintf(md5_str, ..., dig[0..15]) with dig from MD5::Calc(data.data(), data.size(), dig)
    sn = [n for n in g.all_nodes() if is_call(n, "snprintf") and expr_str(g, n["a"][0]) == "md5_str"]
    r.check(len(sn) == 1, "backup_copy_file/md5_str-single-def", db.loc(g, g.l0), "md5_str must be formatted exactly once (found %d)" % len(sn))
    calc = [n for n in g.all_nodes() if n["k"] == "call" and n.get("c") == "MD5::Calc"]
    r.check(len(calc) == 1 and expr_str(g, calc[0]["i"]) == "Calc(data.data(), data.size(), dig)", "backup_copy_file/md5-over-data",
            db.loc(g, calc[0] if calc else g.l0), "the md5 must be computed over exactly the bytes passed in (`data`), found %s" % [expr_str(g, c["i"]) for c in calc])
    if sn and calc:
        r.check(g.dominates(calc[0]["i"], sn[0]["i"]), "backup_copy_file/calc-before-format", db.loc(g, sn[0]), "md5_str is formatted before MD5::Calc ran")
        args = [expr_str(g, a) for a in sn[0]["a"][3:]]
        r.check(args == ["dig[%d]" % i for i in range(16)], "backup_copy_file/md5_str-digits", db.loc(g, sn[0]), "md5_str is not formatted from dig[0..15] in order: %s" % args)
    # md5_str_in is written only from `buffer`, which only fgets() from the md5 file fills
    stores = [n for n in g.all_nodes() if n["k"] == "asg" and expr_str(g, n["a"][0]).startswith("md5_str_in[")]
    for s in stores:
        r.seen()
        rhs = expr_str(g, s["a"][1])
        r.check(rhs in ("0", "unc_tolower(buffer[i])", "buffer[i]"), "backup_copy_file/md5_str_in-source", db.loc(g, s), "md5_str_in receives `%s`" % rhs)
    r.floor(8)


def rule_names_not_truncated(ctx):
    """the backup, the md5 file and the output file are *named* by snprintf into fixed buffers; a truncated name is the name of
    another file - of the other backup file, or of the source itself"""
    db = ctx.db
    r = ctx.rule("names-not-truncated", "every snprintf that builds a file name in backup_copy_file, backup_create_md5_file and "
                 "make_output_filename either stores its result and is followed, before the function's normal return, by a test of "
                 "that result against the size whose failing edge cannot return normally, or is dominated by a length test "
                 "(strlen(..) + strlen(..) >= sizeof(buffer)) whose failing edge cannot reach it")
    n = 0
    for qn, file in (("backup_copy_file", BK), ("backup_create_md5_file", BK), ("make_output_filename", "src/uncrustify.cpp")):
        g = db.fn(qn, file=file)
        sns = [x for x in g.all_nodes() if is_call(x, "snprintf") and x.get("a") and len(x["a"]) >= 3
               and "%s" in ((g.nodes.get(x["a"][2]) or {}).get("v") or "") and expr_str(g, x["a"][0]) not in ("md5_str",)]
        r.require(sns, "%s: no snprintf that builds a name" % qn)
        for x in sns:
            n += 1
            r.seen()
            dest = expr_str(g, x["a"][0])
            conds = [(expr_str(g, cn), pol) for cn, pol in g.guard_conds(g.nblock[x["i"]]) if cn is not None]
            pre = any(pol is False and (re.search(r"strlen\(.*>= sizeof\(", c) or re.search(r"sizeof\(.*<= .*strlen\(", c)) for c, pol in conds)
            post = False
            # result variable
            ps = g.parents().get(x["i"]) or []
            var = None
            for pi in ps:
                pn = g.nodes[pi]
                if pn["k"] == "asg":
                    var = expr_str(g, pn["a"][0])
                elif pn["k"] == "decl":
                    vs = [v["n"] for v in pn["vars"] if v.get("init") == x["i"]]
                    var = vs[0] if vs else var
            if var is not None:
                for b, blk in g.blocks.items():
                    t = blk.get("term")
                    c = t.get("lc", t.get("c")) if t else None
                    if c is None or len(g.succ[b]) != 2:
                        continue
                    cs = expr_str(g, c)
                    if re.search(r"\b%s\b\)? >= " % re.escape(var), cs):
                        def stop(y):
                            return is_call(y, "exit") or is_call(y, "output_name_too_long")
                        bad_edge = g.succ[b][0]
                        stops = bad_edge >= 0 and g.paths_avoiding(bad_edge, lambda y: y["k"] == "ret", stop, start_is_node=False) is None
                        # every path from the call to a return passes this test (or stops)
                        through = g.paths_avoiding(x["i"], lambda y: y["k"] == "ret", lambda y, b=b: stop(y) or g.nblock[y["i"]] == b) is None
                        if stops and through:
                            post = True
            r.check(pre or post, "%s/snprintf(%s)/%s" % (qn, dest, (g.nodes.get(x["a"][2]) or {}).get("v")), db.loc(g, x),
                    "the name built by `%s` may be truncated and is used all the same: a path close to the buffer size names another file "
                    "(dominating facts: %s; result variable: %s)" % (expr_str(g, x["i"])[:70], [c for c, p in conds if "strlen" in c], var))
    # the helper that stops the run must not return
    h = db.fns("output_name_too_long")
    for g in h:
        r.check(not [y for y in g.all_nodes() if y["k"] == "ret"] and db.calls_in(g, "exit"), "output_name_too_long/stops", db.loc(g, g.l0),
                "output_name_too_long() can return")
    r.require(n >= 5, "only %d name-building snprintf calls found" % n)
    r.floor(5)


def rule_md5_write_checked(ctx):
    """the md5 file is what tells the next run that the file holds uncrustify's own output; if it silently fails to be written,
    the next run copies that output over the backup of the original"""
    db = ctx.db
    r = ctx.rule("md5-write-checked", "backup_create_md5_file(): a failing fopen() of the md5 file cannot return normally, and the result of "
                 "fclose() of that file is tested with a failing edge that cannot return normally")
    g = db.fn("backup_create_md5_file", file=BK)
    opens = [n for n in g.all_nodes() if is_write_open(g, n)]
    r.require(len(opens) == 1, "backup_create_md5_file: %d write-mode opens" % len(opens))

    ok_open = False
    ok_close = False
    for b, blk in g.blocks.items():
        t = blk.get("term")
        c = t.get("lc", t.get("c")) if t else None
        if c is None or len(g.succ[b]) != 2:
            continue
        cs = expr_str(g, c)
        if cs in ("thefile != nullptr", "thefile"):
            ok_open = ok_open or _no_return_from(g, g.succ[b][1])
        elif cs in ("thefile == nullptr", "!thefile"):
            ok_open = ok_open or _no_return_from(g, g.succ[b][0])
        cs_all = [cs]
        cnode = g.nodes.get(c)
        if cnode is not None and cnode["k"] == "ref" and cnode.get("d") == "lv":     # a bool local that holds the result of the test
            _rd = ReachingDefs(g, db)
            ds = _rd.at(c, var_id(cnode))
            if len(ds) == 1 and _rd.rhs_of(ds[0]) is not None:
                cs_all.append(expr_str(g, _rd.rhs_of(ds[0])))
        if any("fclose(thefile) != 0" in t for t in cs_all):
            ok_close = ok_close or _no_return_from(g, g.succ[b][0])
    r.check(ok_open, "backup_create_md5_file/open-failure-stops", db.loc(g, opens[0]), "when the md5 file cannot be created the function returns as if "
            "nothing had happened")
    r.check(ok_close, "backup_create_md5_file/close-failure-stops", db.loc(g, opens[0]), "the result of fclose() on the md5 file is not tested (a "
            "flush error - disk full - leaves a stale or empty md5 file unnoticed)")
    r.floor(2)


def _no_return_from(g, b):
    """no `return` / function end reachable from block b without passing exit()"""
    if b < 0:
        return False
    seen = set()
    stack = [b]
    while stack:
        x = stack.pop()
        if x in seen:
            continue
        seen.add(x)
        if x == g.d.get("exit"):
            return False
        cut = False
        for n in g.blocks[x]["n"]:
            if is_call(n, "exit"):
                cut = True
                break
            if n["k"] == "ret":
                return False
        if cut:
            continue
        for s2 in g.succ[x]:
            if s2 >= 0:
                stack.append(s2)
    return True


def rule_md5_format_agreement(ctx):
    db = ctx.db
    r = ctx.rule("md5-format-agreement", "writer (backup_create_md5_file) and reader/comparator (backup_copy_file) use the same 32 hex "
                 "digit lower-case format over dig[0..15]; the writer hashes the file it names")
    g = db.fn("backup_copy_file", file=BK)
    h = db.fn("backup_create_md5_file", file=BK)
    sn = [n for n in g.all_nodes() if is_call(n, "snprintf") and expr_str(g, n["a"][0]) == "md5_str"]
    fp = [n for n in h.all_nodes() if is_call(n, "fprintf")]
    r.require(len(sn) == 1 and len(fp) == 1, "format sites not found (snprintf md5_str: %d, fprintf: %d)" % (len(sn), len(fp)))
    rf = g.nodes[sn[0]["a"][2]]["v"]
    wf = h.nodes[fp[0]["a"][1]]["v"]
    hexpart = lambda s: re.match(r"(?:%02x)*", s).group(0)
    r.check(hexpart(rf) == "%02x" * 16, "reader-format-16-bytes", db.loc(g, sn[0]), "reader formats %r" % rf)
    r.check(hexpart(wf) == "%02x" * 16, "writer-format-16-bytes", db.loc(h, fp[0]), "writer formats %r" % wf)
    wargs = [expr_str(h, a) for a in fp[0]["a"][2:18]]
    r.check(wargs == ["dig[%d]" % i for i in range(16)], "writer-digits-in-order", db.loc(h, fp[0]), "writer prints %s" % wargs)
    mc = [n for n in g.all_nodes() if is_call(n, "memcmp")]
    r.check(len(mc) == 1 and expr_str(g, mc[0]["a"][2]) == "32", "compare-length-32", db.loc(g, mc[0] if mc else g.l0), "comparison length is not 32")
    # reader lower-cases and stops at the first non-hex character, so the trailing '  name' of the writer is ignored
    low = [n for n in g.all_nodes() if is_call(n, "unc_tolower")]
    isx = [n for n in g.all_nodes() if is_call(n, "unc_isxdigit")]
    r.check(bool(low) and bool(isx), "reader-normalises", db.loc(g, g.l0), "reader no longer classifies hex digits / lower-cases")
    r.check(wf[64:65] in (" ", "\n"), "writer-terminates-digits", db.loc(h, fp[0]), "writer's digits are followed by %r" % wf[64:65])
    # the writer hashes the content of the path it is given, after reading all of it
    fo = [n for n in h.all_nodes() if n["k"] == "call" and n.get("c") == "fopen"]
    rd_open = [n for n in fo if not is_write_open(h, n)]
    r.check(len(rd_open) == 1 and expr_str(h, rd_open[0]["a"][0]) == "filename", "writer-hashes-named-file", db.loc(h, h.l0), "md5 writer does not read `filename`")
    upd = [n for n in h.all_nodes() if n["k"] == "call" and n.get("c") == "MD5::Update"]
    fin = [n for n in h.all_nodes() if n["k"] == "call" and n.get("c") == "MD5::Final"]
    r.check(len(upd) == 1 and expr_str(h, upd[0]["i"]) == "md5.Update(buf, len)", "writer-updates-with-read-bytes", db.loc(h, upd[0] if upd else h.l0),
            "MD5 update is not over exactly the bytes read")
    r.check(len(fin) == 1 and all(h.dominates(fin[0]["i"], x["i"]) for x in fp), "writer-finalises-before-print", db.loc(h, fin[0] if fin else h.l0), "digest printed before Final()")
    # md5 path = filename + UNC_BACKUP_MD5_SUFFIX in both; backup path uses a different suffix
    def suffixes(fn):
        out = []
        for n in fn.all_nodes():
            if is_call(n, "snprintf") and len(n["a"]) > 4 and fn.nodes[n["a"][2]].get("v") == "%s%s":
                out.append(fn.nodes[n["a"][4]].get("v"))
        return out
    sg, sh = suffixes(g), suffixes(h)
    r.check(len(sg) == 2 and len(sh) == 1 and sh[0] in sg and sg[0] != sg[1], "md5-path-agreement", db.loc(h, h.l0),
            "md5 file name differs between writer %s and reader %s, or equals the backup name" % (sh, sg))
    if len(sg) == 2:
        # the reader opens the md5 path for reading and the other one for writing
        pass
    r.floor(10)


def rule_md5_block_invariant(ctx):
    """MD5 keeps the number of buffered bytes only modulo 64 (`(m_bits[0] >> 3) & 0x3f` in Update and Final), so after
    Update() fewer than 64 bytes may be left in the block buffer: a complete block that is only copied, not transformed,
    is overwritten by the next Update()/Final().  Then the digest depends on how the data was chunked - and the two
    digests of one file that backup_copy_file() (one Update) and backup_create_md5_file() (4096-byte reads) compare
    never agree, or agree for different contents."""
    from ..bounds import Bounds
    db = ctx.db
    r = ctx.rule("md5-block-invariant", "in MD5::Update every write into the 64-byte block buffer that is not followed by Transform() on every "
                 "path to the return leaves at most 63 bytes buffered (interval facts incl. the exit fact of the block loop), matching the "
                 "`& 0x3f` byte count of Update() and Final()")
    f = [g for g in db.fns("MD5::Update")]
    r.require(f, "MD5::Update not found")
    f = f[0]
    masks = [expr_str(g, n["i"]) for g in f and [f] + db.fns("MD5::Final") for n in g.all_nodes() if n["k"] == "bin" and n.get("op") == "&" and expr_str(g, n["a"][1]).lower() in ("63", "0x3f")]
    r.require(len(masks) >= 2, "the modulo-64 byte count (`& 0x3f`) of MD5::Update/Final was not found")
    cps = [n for n in f.all_nodes() if n["k"] == "call" and n.get("c") in ("memcpy", "memmove") and len(n.get("a", ())) == 3]
    r.require(len(cps) >= 3, "MD5::Update: %d memcpy calls" % len(cps))
    n_tail = 0
    for n in cps:
        # a copy after which the function can return without Transform(): the bytes stay buffered
        w = f.exit_reachable_avoiding(n["i"], lambda y: y["k"] == "call" and (y.get("c") or "").endswith("Transform"))
        if not w:
            continue
        dest = expr_str(f, n["a"][0])
        if dest not in ("this->m_in32", "this->m_in8"):
            # partial fill at an offset (p = m_in8 + t): bounded by `len < t` with t = 64 - t0: checked by C06.bounded-copy
            continue
        n_tail += 1
        r.seen()
        B = Bounds(db, f, n["i"])
        lb, ub = B.interval(n["a"][2])
        r.check(ub is not None and ub <= 63, "MD5::Update/tail-copy(%s)" % expr_str(f, n["a"][2]), db.loc(f, n),
                "up to %s bytes are left in the 64-byte block buffer without a Transform(): a complete block is dropped when the data "
                "ends on a block boundary, so the digest depends on the chunking of the input" % (ub if ub is not None else "an unbounded number of"))
    r.require(n_tail >= 1, "MD5::Update: the copy of the remaining bytes was not found")
    r.floor(1)


def rule_inplace_name(ctx):
    """the backup protocol runs only when do_source_file recognises the in-place case (shared with C13)"""
    from . import c13
    c13.rule_inplace_name(ctx)


RULES = [rule_md5_after_install, rule_skip_guard, rule_names_not_truncated, rule_md5_write_checked, rule_md5_format_agreement, rule_md5_block_invariant, rule_inplace_name]
