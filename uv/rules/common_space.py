"""Rules shared by C02 (fusion guard) and C19 (single decision path)."""
from ..facts import expr_str, walk, enum_consts, callee_names
from ..flow import ReachingDefs, var_id

SPACE = "src/space.cpp"


def single_path(ctx, r):
    db = ctx.db
    do_space = db.fn("do_space", file=SPACE)
    ensured = db.fn("do_space_ensured", file=SPACE)
    efs = db.fn("ensure_force_space", file=SPACE)
    sites = db.callers_of_key(do_space.key)
    r.require(sites, "no caller of do_space")
    for f, n in sites:
        r.seen()
        r.check(f.key == ensured.key, "do_space<-%s" % f.qn, db.loc(f, n),
                "do_space() is called from %s, bypassing ensure_force_space()" % f.qn)
    # in do_space_ensured: every do_space() call is the av argument of ensure_force_space whose result is returned
    for n in db.calls_in(ensured, "do_space"):
        par = [ensured.nodes[p] for p in ensured.parents().get(n["i"], ())]
        ok = any(p["k"] == "call" and p.get("c") == "ensure_force_space" and len(p["a"]) == 3 and p["a"][2] == n["i"] for p in par)
        r.check(ok, "do_space_ensured/wraps", db.loc(ensured, n), "do_space() result does not go through ensure_force_space()")
    rets = [n for n in ensured.all_nodes() if n["k"] == "ret"]
    for n in rets:
        c = ensured.nodes.get(n["a"][0]) if n.get("a") else None
        r.check(c is not None and c["k"] == "call" and c.get("c") == "ensure_force_space", "do_space_ensured/returns-ensured",
                db.loc(ensured, n), "do_space_ensured returns something other than ensure_force_space(...)")
    allowed = {"space_text", "space_needed", "space_col_align"}
    sites = db.callers_of_key(ensured.key)
    r.require(sites, "no caller of do_space_ensured")
    for f, n in sites:
        r.seen()
        r.check(f.qn in allowed and f.file == SPACE, "do_space_ensured<-%s" % f.qn, db.loc(f, n),
                "new consumer of the spacing decision: %s" % f.qn)
    # nobody takes the address of these functions
    for fn in (do_space, ensured, efs):
        for tgt, lst in db.address_taken().items():
            if tgt == fn.d["m"] or tgt == fn.qn:
                for g, n in lst:
                    # direct callee references are not emitted as ref nodes; anything here is address-taking
                    r.fail("%s/address-taken-in-%s" % (fn.qn, g.qn), db.loc(g, n), "address of %s taken" % fn.qn)
    # ensure_force_space: returns av, or av | IARF_ADD under TestFlags(PCF_FORCE_SPACE); never removes bits
    rets = [n for n in efs.all_nodes() if n["k"] == "ret"]
    r.require(len(rets) >= 2, "ensure_force_space has %d returns" % len(rets))
    forced = 0
    for n in rets:
        r.seen()
        s = expr_str(efs, n["i"])
        consts = enum_consts(efs, n["i"])
        ops = set(x.get("op") for x in walk(efs, n["i"]) if x["k"] in ("call", "bin") and x.get("op"))
        refs = set(x["n"] for x in walk(efs, n["i"]) if x["k"] == "ref" and x.get("d") == "pv")
        conds = efs.guard_conds(efs.nblock[n["i"]])
        under_force = any(pol is True and "TestFlags" in "".join(c or "" for c in callee_names(efs, cn)) and "PCF_FORCE_SPACE" in enum_consts(efs, cn)
                          for (cn, pol) in conds if cn is not None and isinstance(pol, bool))
        if under_force:
            forced += 1
            r.check("av" in refs and consts == {"IARF_ADD"} and ops <= {"|"}, "ensure_force_space/forced-return", db.loc(efs, n),
                    "under PCF_FORCE_SPACE the decision must be `av | IARF_ADD`, found `%s`" % s)
        else:
            r.check(refs == {"av"} and not consts and not ops, "ensure_force_space/plain-return", db.loc(efs, n),
                    "without PCF_FORCE_SPACE the decision must be returned unchanged, found `%s`" % s)
    r.check(forced >= 1, "ensure_force_space/has-forced-path", db.loc(efs, efs.l0), "no return is controlled by TestFlags(PCF_FORCE_SPACE)")


def _flag_call(f, n, meth, flag):
    return n["k"] == "call" and (n.get("c") or "").endswith("::" + meth) and flag in enum_consts(f, n["i"])


def fusion_guard(ctx, r):
    """space_text(): reset of PCF_FORCE_SPACE dominates the decision; the two setters (word/word and
    punctuator re-lex) are present under their guards; nothing clears the flag between setter and decision."""
    db = ctx.db
    f = db.fn("space_text", file=SPACE)
    rd = ReachingDefs(f, db)
    r.names(f, "pc", "next", "kw1", "kw2")
    decide = db.calls_in(f, "do_space_ensured")
    r.require(len(decide) == 1, "space_text: %d calls of do_space_ensured" % len(decide))
    decide = decide[0]
    resets = [n for n in f.all_nodes() if _flag_call(f, n, "ResetFlagBits", "PCF_FORCE_SPACE")]
    sets = [n for n in f.all_nodes() if _flag_call(f, n, "SetFlagBits", "PCF_FORCE_SPACE")]
    r.require(resets, "space_text: no ResetFlagBits(PCF_FORCE_SPACE)")
    r.check(any(f.dominates(x["i"], decide["i"]) for x in resets), "space_text/reset-dominates-decision", db.loc(f, decide),
            "the spacing decision is not dominated by the reset of PCF_FORCE_SPACE")

    def recv(n):
        return expr_str(f, n.get("o"))
    word = punct = 0
    for s in sets:
        r.seen()
        conds = [(cn, pol) for (cn, pol) in f.guard_conds(f.nblock[s["i"]]) if cn is not None and isinstance(pol, bool)]
        # resolve locals in conditions to their defining calls
        kw = {}
        fp = False
        for cn, pol in conds:
            for x in walk(f, cn):
                if x["k"] == "ref" and x.get("d") == "lv":
                    for info in rd.at(cn, var_id(x)):
                        rhs = rd.rhs_of(info)
                        if rhs is None:
                            continue
                        names = callee_names(f, rhs)
                        if "CharTable::IsKw2" in names and cn == x["i"]:
                            kw["IsKw2"] = pol
                        if "CharTable::IsKw1" in names and cn == x["i"]:
                            kw["IsKw1"] = pol
                        if "find_punctuator" in names and pol is True:
                            # ct != nullptr
                            c = f.nodes[cn]
                            if c["k"] == "bin" and c["op"] == "!=":
                                fp = True
        dg = f.direct_guard(f.nblock[s["i"]])
        dgs = expr_str(f, dg[0]) if dg else ""
        if kw.get("IsKw2") is True and kw.get("IsKw1") is True and recv(s) == "pc" and dg is not None and dg[1] is True and dgs in ("kw1 && kw2", "kw2 && kw1", "kw2", "kw1"):
            word += 1
        elif fp and recv(s) == "pc":
            punct += 1
        # the setter must reach the decision without an intervening reset
        w = f.paths_avoiding(s["i"], lambda n: n["i"] == decide["i"], lambda n: _flag_call(f, n, "ResetFlagBits", "PCF_FORCE_SPACE"))
        r.check(w is not None, "space_text/set-reaches-decision", db.loc(f, s), "SetFlagBits(PCF_FORCE_SPACE) cannot reach the decision before a reset")
    r.check(word >= 1, "space_text/word-word-setter", db.loc(f, decide),
            "no SetFlagBits(PCF_FORCE_SPACE) on pc under (IsKw2(last char of pc) && IsKw1(first char of next))")
    r.check(punct >= 1, "space_text/punctuator-setter", db.loc(f, decide),
            "no SetFlagBits(PCF_FORCE_SPACE) on pc under find_punctuator(concat) != nullptr")
    # the kw tests look at the right characters: IsKw2(pc->GetStr()[pc->Len() - 1]) and IsKw1(next->GetStr()[0])
    for name, want in (("CharTable::IsKw2", "pc->GetStr()[pc->Len() - 1]"), ("CharTable::IsKw1", "next->GetStr()[0]")):
        calls = db.calls_in(f, name)
        r.require(calls, "space_text: no call of %s" % name)
        for c in calls:
            got = expr_str(f, c["a"][0])
            r.check(got == want, "space_text/%s-arg" % name.split("::")[-1], db.loc(f, c), "%s is applied to `%s`, expected `%s`" % (name, got, want))
    # space_needed() turns the decision into text (the merged type of a conversion operator): it has no PCF_FORCE_SPACE to
    # consult, so its own `return 0` must exclude two words
    sn = db.fn("space_needed", file=SPACE)
    zeros = [n for n in sn.all_nodes() if n["k"] == "ret" and n.get("a") and sn.nodes[n["a"][0]]["k"] == "int" and sn.nodes[n["a"][0]]["v"] == 0]
    r.require(zeros, "space_needed has no `return 0`")
    for z in zeros:
        r.seen()
        cs = [(expr_str(sn, cn), pol) for cn, pol in sn.guard_conds(sn.nblock[z["i"]]) if cn is not None]
        ok = any(pol is False and "IsKw2(first->GetStr()[first->Len() - 1])" in c and "IsKw1(second->GetStr()[0])" in c and "||" not in c for c, pol in cs)
        r.check(ok, "space_needed/no-zero-between-words", db.loc(sn, z), "space_needed() can return 0 blanks for two words (its result is written into the merged "
                "text of a conversion operator's type: `operator unsignedlong`)")
    # PCF_FORCE_SPACE is written nowhere else
    for g in db.funcs.values():
        if g.key == f.key:
            continue
        for n in g.nodes.values():
            if n["k"] == "call" and (n.get("c") or "").endswith(("::ResetFlagBits", "::SetFlagBits")) and "PCF_FORCE_SPACE" in enum_consts(g, n["i"]):
                r.fail("PCF_FORCE_SPACE-written-in/%s" % g.qn, db.loc(g, n), "PCF_FORCE_SPACE is modified outside space_text()")
