"""C17 Whitespace hygiene of the output.

Decided: every character goes through add_char's blank buffering (single writer, from C08); the tokenizer strips
trailing blanks and tabs of every chunk that is not a disabled-region line before it enters the list; with
indent_with_tabs=0 (pp_indent_with_tabs -1 or 0) every column advance for a line's first token is made with
allow_tabs == false and a tab after a blank is expanded; blanks are only flushed when a non-blank follows; the end of
file policy is C20.eof-families.
Not decided: trailing blanks that arise from column arithmetic inside comments (continuation lines are exempt by the
property), alignment columns.
"""
from ..facts import expr_str, walk, in_macro
from ..flow import ReachingDefs, var_id
from ..fold import Folder
from . import c08, c20

OUT = "src/output.cpp"
TOK = "src/tokenizer/tokenize.cpp"


def _conds(f, n):
    return [(expr_str(f, cn), pol) for cn, pol in f.guard_conds(f.nblock[n["i"]]) if cn is not None]


def rule_single_writer(ctx):
    c08.rule_single_writer(ctx, "single-writer")


def rule_strip(ctx):
    db = ctx.db
    r = ctx.rule("strip", "in tokenize() every chunk whose type is not CT_IGNORED has trailing ' ' and '\\t' removed (pop_back loop) on every "
                 "path to CopyAndAddBefore; the loop is controlled by GetType() != CT_IGNORED only")
    f = db.fn("tokenize", file=TOK)
    r.names(f, "chunk", "ctx", "ref", "pc")
    pops = [n for n in f.all_nodes() if n["k"] == "call" and (n.get("c") or "").endswith("::pop_back") and expr_str(f, n.get("o")) == "chunk.Str()"]
    r.require(len(pops) == 1, "tokenize: %d pop_back sites on chunk.Str()" % len(pops))
    pop = pops[0]
    conds = _conds(f, pop)
    r.check(("chunk.GetType() != CT_IGNORED", True) in conds, "tokenize/strip-not-for-ignored", db.loc(f, pop), "the strip loop is not under GetType() != CT_IGNORED: %s" % conds)
    # the loop condition tests the last character against blank and tab
    loops = [(h, body) for h, body, backs in f.loops() if f.nblock[pop["i"]] in body]
    r.require(loops, "strip loop not found")
    h, body = min(loops, key=lambda x: len(x[1]))
    chars = set()
    for b in body:
        t = f.blocks[b].get("term")
        if t and t.get("c") is not None:
            for x in walk(f, t["c"]):
                if x["k"] == "chr":
                    chars.add(x["v"])
    r.check({32, 9} <= chars, "tokenize/strip-blank-and-tab", db.loc(f, pop), "the strip loop tests characters %s (needs ' ' and '\\t')" % sorted(chars))
    # the only way to leave the loop early is the backslash guard
    extra = [c for c in conds if c[0] not in ("chunk.GetType() != CT_IGNORED",) and "GetStr()" not in c[0] and "ref->" not in c[0] and "parse_next" not in c[0]
             and "CT_WHITESPACE" not in c[0] and "ctx.more()" not in c[0]]
    # conditions over the chunk text are the loop test and the backslash guard; nothing may make the strip depend on an option
    extra += [c for c in conds if "options::" in c[0] or "cpd." in c[0]]
    r.check(not extra, "tokenize/strip-unconditional", db.loc(f, pop), "stripping additionally depends on %s" % extra)
    # exactly one way to leave the strip loop early: the backslash guard
    brk = []
    for b in body:
        for i, s2 in enumerate(f.succ[b]):
            if s2 >= 0 and s2 not in body and b != h:
                t = f.blocks[b].get("term")
                brk.append(expr_str(f, t.get("lc", t.get("c"))) if t and t.get("c") is not None else "(unconditional)")
    ok_brk = [c for c in brk if "'\\\\'" in c or ".size() > 1" in c or "' '" in c or "'\\t'" in c or ".size() > 0" in c]
    r.check(len(ok_brk) == len(brk), "tokenize/strip-early-exits", db.loc(f, pop), "the strip loop can also be left under %s" % [c for c in brk if c not in ok_brk])
    adds = [n for n in f.all_nodes() if n["k"] == "call" and (n.get("c") or "").endswith("CopyAndAddBefore")]
    r.require(len(adds) == 1, "tokenize: %d CopyAndAddBefore calls" % len(adds))
    gate = [b for b, blk in f.blocks.items() if blk.get("term") and expr_str(f, blk["term"].get("lc", blk["term"].get("c"))) == "chunk.GetType() != CT_IGNORED"]
    r.require(len(gate) == 1, "the CT_IGNORED gate of the strip loop was not found")
    pn = [n for n in f.all_nodes() if n["k"] == "call" and n.get("c") == "parse_next"]
    r.require(len(pn) == 1, "tokenize: %d parse_next calls" % len(pn))

    def edge_ok(b, i):
        return not (b == gate[0] and i == 1)
    w = f.paths_avoiding(pn[0]["i"], lambda n: n["i"] == adds[0]["i"], lambda n: f.nblock[n["i"]] == h or f.nblock[n["i"]] == gate[0] and False, edge_ok=edge_ok)
    # the path must go through the gate's true edge -> loop header; detect bypass of the gate block itself
    w2 = f.paths_avoiding(pn[0]["i"], lambda n: n["i"] == adds[0]["i"], lambda n: False,
                          edge_ok=lambda b, i: f.succ[b][i] != gate[0])
    r.check(w2 is None, "tokenize/strip-on-every-path", db.loc(f, adds[0]), "a chunk can be added to the list without passing the trailing-blank strip",
            path=["%s:%d" % (f.file, l) for l in f.path_lines(w2[0])][-8:] if w2 else None)
    r.check(f.dominates_block(gate[0], f.nblock[adds[0]["i"]]) and f.succ[gate[0]][0] in body | {h}, "tokenize/gate-leads-to-loop", db.loc(f, adds[0]),
            "the CT_IGNORED gate no longer leads into the strip loop")
    # the strip loop keeps one blank after a backslash (meant for `// ... \ ` comments).  The only other producer of raw
    # multi-character text, the reader of an unknown directive's body (CT_PREPROC_BODY), must therefore never append
    # a blank that follows a backslash - otherwise a code line ends in "\ ".
    pn2 = db.fn("parse_next", file=TOK)
    typed = [n for n in pn2.all_nodes() if n["k"] == "call" and (n.get("c") or "").endswith("Chunk::SetType") and n.get("a")
             and expr_str(pn2, n["a"][0]) == "CT_PREPROC_BODY"]
    r.require(len(typed) == 1, "parse_next: %d SetType(CT_PREPROC_BODY) sites" % len(typed))
    apps = [n for n in pn2.all_nodes() if n["k"] == "call" and (n.get("c") or "").endswith("::append") and expr_str(pn2, n.get("o")) == "pc.Str()"
            and pn2.dominates(typed[0]["i"], n["i"]) and any(pn2.nblock[n["i"]] in body2 and pn2.nblock[typed[0]["i"]] not in body2 for h2, body2, _ in pn2.loops())
            and ("cpd.in_preproc > CT_PP_BODYCHUNK", True) in _conds(pn2, n)]
    r.require(apps, "the append site of the CT_PREPROC_BODY reader was not found")
    for n in apps:
        cs = _conds(pn2, n)
        # the append is reached only when NOT (last == '\\' && <blank test> [&& only_blanks_to_end_of_line(ctx)]):
        # either every blank after a backslash is dropped, or exactly those that run to the end of the line
        okb = False
        BS = chr(92)
        for c, pol in cs:
            cc = c.replace(BS, "")                    # compare without the escape characters of the C literals
            if pol is False and "last == ''" in cc and "ch == ' '" in cc:
                parts = [x.strip() for x in cc.split(" && ")]
                extra = [x for x in parts if x not in ("last == ''", "ch == ' '", "ch == ' ' || ch == 't'", "(ch == ' ' || ch == 't')", "only_blanks_to_end_of_line(ctx)")]
                if not extra:
                    okb = True
        r.check(okb, "parse_next/preproc-body/no-blank-after-backslash", db.loc(pn2, n),
                "the reader of a directive body appends a character without excluding a blank that follows a backslash and runs to the end of the line; "
                "together with the strip loop's keep-one-blank-after-backslash exemption a code line can end in a blank")
    hs = db.fns("only_blanks_to_end_of_line")
    if hs:
        # the helper says `to the end of the line` only after it has skipped blanks and tabs and then sees LF, CR or the end of the input
        h = hs[0]
        txt = " ".join(expr_str(h, x["i"]) for x in h.all_nodes() if x["k"] in ("bin", "ret")).replace(chr(92), "")
        r.check("== ' '" in txt and "== 't'" in txt and "== 'n'" in txt and "== 'r'" in txt and "== 0" in txt and len([x for x in h.all_nodes() if x["k"] == "ret"]) == 1,
                "only_blanks_to_end_of_line/shape", db.loc(h, h.l0), "only_blanks_to_end_of_line() no longer skips ' ' and '\\t' and then compares with LF, CR and 0")
    r.floor(6)


def rule_tabs_off(ctx):
    db = ctx.db
    r = ctx.rule("tabs-off", "under indent_with_tabs=0 and pp_indent_with_tabs in {-1,0}: every output_to_column() call of output_text for the "
                 "first token of a line is unreachable or gets allow_tabs == false; add_char expands a tab that follows a blank")
    env = {"indent_with_tabs": {0}, "pp_indent_with_tabs": {-1, 0}}
    f = db.fn("output_text", file=OUT)
    r.names(f, "pc", "allow_tabs")
    rd = ReachingDefs(f, db)
    fd = Folder(f, rd, env)
    calls = [n for n in db.calls_in(f, "output_to_column")]
    r.require(len(calls) >= 2, "output_text has %d output_to_column calls" % len(calls))
    lead = 0
    for n in calls:
        r.seen()
        facts_ = f.guard_conds(f.nblock[n["i"]])
        cs = [(expr_str(f, cn), pol) for cn, pol in facts_ if cn is not None]
        unreachable = False
        for cn, pol in facts_:
            if cn is None or not isinstance(pol, bool):
                continue
            t = fd.truth(cn, cn)
            if t is not None and t != pol:
                unreachable = True
        arg = fd.truth(n["a"][1], n["i"])
        # the call that serves both the line-start and the mid-line branch: allow_tabs has one definition per branch
        if ("cpd.did_newline", True) in cs:
            lead += 1
            r.check(unreachable or arg is False, "output_text/line-start/%s" % expr_str(f, n["i"])[:40], db.loc(f, n),
                    "with indent_with_tabs=0 this call can run with allow_tabs = %s" % arg)
        else:
            # shared call after the if/else: check the definition of allow_tabs made in the did_newline branch
            a = f.nodes.get(n["a"][1])
            if a is not None and a["k"] == "ref":
                for info in rd.at(n["i"], var_id(a)):
                    if info[0] in ("asg", "decl"):
                        dn = info[1]
                        dcs = [(expr_str(f, cn), pol) for cn, pol in f.guard_conds(f.nblock[dn["i"]]) if cn is not None]
                        if ("cpd.did_newline", False) in dcs:
                            continue        # a definition made for a token that is not the first of its line
                        # made in the line-start branch, or after the join (then it applies to line starts as well)
                        lead += 1
                        rhs = rd.rhs_of(info)
                        v = fd.truth(rhs, dn["i"]) if rhs is not None else None
                        where = "line-start" if ("cpd.did_newline", True) in dcs else "both-branches"
                        r.check(v is False, "output_text/%s/allow_tabs-definition" % where, db.loc(f, dn),
                                "with indent_with_tabs=0 the definition `%s`, which reaches the column advance of a line's first token, "
                                "does not fold to false (folds to %s)" % (expr_str(f, dn["i"])[:90], v))
    r.require(lead >= 2, "only %d line-start tab decisions found in output_text" % lead)
    # add_char: tab after blank
    a = db.fn("add_char", file=OUT)
    r.names(a, "ch")
    rda = ReachingDefs(a, db)
    fa = Folder(a, rda, env)
    tests = [b for b, blk in a.blocks.items() if blk.get("term") and expr_str(a, blk["term"].get("lc", blk["term"].get("c"))) == "indent_with_tabs == 0"]
    r.check(len(tests) == 1, "add_char/tab-after-blank-test", db.loc(a, a.l0), "add_char no longer tests indent_with_tabs == 0 for a tab after a blank")
    for b in tests:
        c = a.blocks[b]["term"].get("lc", a.blocks[b]["term"].get("c"))
        t = fa.truth(c, c)
        r.check(t is True, "add_char/tab-after-blank-folds", db.loc(a, a.blocks[b]["term"]["l"]), "under the configuration `indent_with_tabs == 0` folds to %s" % t)
        cs = [(expr_str(a, cn), pol) for cn, pol in a.guard_conds(b) if cn is not None]
        r.check(("ch == '\\t'", True) in cs and ("cpd.last_char == ' '", True) in cs and ("!is_literal", True) in cs, "add_char/tab-after-blank-guard", db.loc(a, a.blocks[b]["term"]["l"]),
                "the test is guarded by %s" % cs)
        w = a.paths_avoiding(a.succ[b][0], lambda n: n["k"] == "call" and n.get("c") == "write_char" and expr_str(a, n["a"][0]) == "ch", lambda n: n["k"] == "ret", start_is_node=False)
        r.check(w is None, "add_char/tab-not-written", db.loc(a, a.blocks[b]["term"]["l"]), "the tab is still written after the expansion branch")
    # comments are indented by cmt_output_indent(): its tab policy `iwt` is 0 under the same configuration (with
    # indent_cmt_with_tabs at its default false; pp_indent_with_tabs = -1 means `as indent_with_tabs`, it must not count as `on`)
    c = db.fn("cmt_output_indent", file=OUT)
    envc = {"indent_with_tabs": {0}, "pp_indent_with_tabs": {-1, 0}, "indent_cmt_with_tabs": {0}}
    rdc = ReachingDefs(c, db)
    fc = Folder(c, rdc, envc)
    iwt = [(n, v) for n in c.all_nodes() if n["k"] == "decl" for v in n["vars"] if v["n"] == "iwt" and v.get("init") is not None]
    r.require(len(iwt) == 1, "cmt_output_indent: the tab policy variable `iwt` was not found")
    val = fc.fold(iwt[0][1]["init"], iwt[0][0]["i"])
    r.check(val is not None and set(val) == {0}, "cmt_output_indent/tab-policy-folds-to-0", db.loc(c, iwt[0][0]),
            "with indent_with_tabs=0, indent_cmt_with_tabs=false and pp_indent_with_tabs in {-1,0} the comment indent policy `%s` folds to %s, not to 0: "
            "comment lines are indented with tabs" % (expr_str(c, iwt[0][1]["init"])[:80], sorted(val) if val is not None else "unknown"))
    r.floor(6)


def rule_blank_buffer(ctx):
    db = ctx.db
    r = ctx.rule("blank-buffer", "add_char buffers ' ' in cpd.spaces (unless output_trailspace) and flushes the buffer only in front of a "
                 "non-blank character; a line break discards it")
    a = db.fn("add_char", file=OUT)
    r.names(a, "ch")
    flushes = [n for n in db.calls_in(a, "add_spaces")]
    r.require(len(flushes) >= 2, "add_char has %d add_spaces calls" % len(flushes))
    for n in flushes:
        r.seen()
        cs = _conds(a, n)
        ok = ("ch == '\\n'", True) in cs or (("ch == '\\n'", False) in cs and ("ch == '\\r'", False) in cs and ("ch == ' ' && !cpd.output_trailspace", False) in cs)
        r.check(ok, "add_char/flush-site", db.loc(a, n), "buffered blanks are flushed under %s" % cs)
    # the '\n' branch: flush happens?  In the newline branch add_spaces() precedes write_string: trailing blanks would be written.
    nlflush = [n for n in flushes if ("ch == '\\n'", True) in _conds(a, n)]
    zero = [n for n in a.all_nodes() if n["k"] == "asg" and expr_str(a, n["i"]) == "cpd.spaces = 0" and ("ch == '\\n'", True) in _conds(a, n)]
    r.check(bool(zero), "add_char/newline-discards-buffer", db.loc(a, a.l0), "a line break no longer zeroes cpd.spaces")
    for n in nlflush:
        # flushing blanks right before the line terminator writes trailing blanks unless something guarantees spaces == 0
        r.note("add_spaces() before the terminator at %s" % db.loc(a, n))
    buf = [n for n in a.all_nodes() if n["k"] == "un" and n["op"] == "++" and expr_str(a, n["a"][0]) == "cpd.spaces"]
    r.check(len(buf) == 1 and ("ch == ' ' && !cpd.output_trailspace", True) in _conds(a, buf[0]) or (len(buf) == 1 and ("ch == ' '", True) in _conds(a, buf[0])),
            "add_char/blank-is-buffered", db.loc(a, buf[0] if buf else a.l0), "a blank is no longer buffered in cpd.spaces")
    # blank lines are padded to Chunk::GetNlColumn() when that is > 1: "unless blank-line indentation is explicitly requested"
    # means that the column is set only under indent_single_newlines
    setters = db.callers_of("Chunk::SetNlColumn")
    r.require(len(setters) >= 1, "no caller of Chunk::SetNlColumn")
    from ..flow import provenance_options
    for f, n in setters:
        r.seen()
        cs = _conds(f, n)
        rdf = ReachingDefs(f, db)
        # the controlling fact may read the option directly or through a local that caches it
        on_request = ("options::indent_single_newlines()", True) in cs or any(
            pol is True and cn is not None and "&&" not in expr_str(f, cn) and "||" not in expr_str(f, cn) and not expr_str(f, cn).startswith("!")
            and "indent_single_newlines" in provenance_options(f, rdf, cn) for cn, pol in f.guard_conds(f.nblock[n["i"]]))
        r.check(on_request, "%s/SetNlColumn-only-on-request" % f.qn.split("::")[-1], db.loc(f, n),
                "the column to which blank lines are padded is set outside `options::indent_single_newlines()` (%s): blank lines come out with "
                "trailing blanks although nobody asked for them" % cs[-3:])
    # a tab is written at once (only blanks are buffered and dropped at a line break): a literal tab written by output_text()
    # itself must not be the last thing on its line
    o = db.fn("output_text", file=OUT)
    tabs = [n for n in o.all_nodes() if n["k"] == "call" and n.get("c") == "add_char" and n.get("a") and (o.nodes.get(n["a"][0]) or {}).get("k") == "chr" and o.nodes[n["a"][0]]["v"] == 9]
    r.require(len(tabs) >= 1, "output_text: no literal add_char(TAB) found (force_tab_after_define)")
    from ..flow import resolved_conds
    for n in tabs:
        r.seen()
        cs = resolved_conds(o, ReachingDefs(o, db), o.nblock[n["i"]])
        r.check(("pc->GetNext(ALL)->IsNewline()", False) in cs or ("!pc->GetNext(ALL)->IsNewline()", True) in cs or ("pc->GetNext()->IsNewline()", False) in cs,
                "output_text/literal-tab-not-at-line-end", db.loc(o, n), "output_text() writes a tab without having excluded that the line ends behind it: %s" % cs[-3:])
    raw = [(f, n) for f in db.funcs.values() if f.file.startswith("src/") for n in f.all_nodes()
           if n["k"] in ("asg", "un") and n.get("a") and expr_str(f, n["a"][0]).endswith("m_nlColumn") and f.qn.split("::")[-1] not in ("SetNlColumn", "Chunk", "Reset", "CopyFrom", "operator=")]
    r.check(not raw, "m_nlColumn/written-only-by-its-setter", db.loc(raw[0][0], raw[0][1]) if raw else "src/chunk.h:1", "m_nlColumn is also written in %s" % sorted(set(f.qn for f, n in raw)))
    r.floor(6)


def rule_eof(ctx):
    c20.rule_eof_families(ctx)
    ctx.rules[-1].id = "C17.eof"


def rule_multi_line_chunk_text(ctx):
    """tokenize()'s strip removes the blanks at the end of a chunk's text, not the blanks in front of a line break *inside* the
    text.  A parser that can copy a line break into the text of a chunk that is neither a comment nor a literal nor a
    disabled-region line must therefore drop the blanks in front of it itself"""
    from ..charwalk import CharWalk
    from .common_fusion import _tables
    from ..facts import enum_consts
    db = ctx.db
    r = ctx.rule("multi-line-chunk-text", "for every append to chunk text inside a loop of a tokenizer function whose chunk types are not all "
                 "CT_COMMENT*/CT_STRING*/CT_IGNORED: under the bindings more()=true, get()=peek()=LF resp. CR (three-valued exploration of the "
                 "iteration, CharTable and helper predicates evaluated on the constant) the append of that character is unreachable, or every "
                 "path to it enters a loop that pops trailing blanks off the text")
    chars = _tables(db)[2]
    r.require(chars is not None and len(chars) == 128, "CharTable::chars not extracted")
    n_sites = n_fn = 0
    for f in sorted(db.funcs.values(), key=lambda g: (g.file, g.l0)):
        if f.file != TOK:
            continue
        apps = [n for n in f.all_nodes() if n["k"] == "call" and (n.get("c") or "").endswith("::append") and "Str()" in expr_str(f, n.get("o")) and n.get("a")
                and any(f.nblock[n["i"]] in body for h, body, _ in f.loops())]
        if not apps:
            continue
        types = set()
        for n in f.all_nodes():
            if n["k"] == "call" and (n.get("c") or "").endswith("Chunk::SetType") and n.get("a"):
                types |= set(enum_consts(f, n["a"][0]))
        if types and all(t.startswith("CT_COMMENT") or t.startswith("CT_STRING") or t == "CT_IGNORED" for t in types):
            continue
        n_fn += 1
        strip = set()
        for h, body, _ in f.loops():
            if any(n["k"] == "call" and (n.get("c") or "").endswith("::pop_back") for b in body for n in f.blocks[b]["n"]):
                strip |= body
        for n in apps:
            n_sites += 1
            r.seen()
            loop = min((body for h, body, _ in f.loops() if f.nblock[n["i"]] in body), key=len)
            hdr = [h for h, body, _ in f.loops() if body == loop][0]
            t = f.blocks[hdr].get("term")
            cond = expr_str(f, t.get("lc", t.get("c")))[:40] if t and t.get("c") is not None else "do"
            bad = [c for c in (10, 13) if CharWalk(db, c, chars).reaches(f, n["i"], strip, value_of=n["a"][0])]
            r.check(not bad, "%s/%s/%s" % (f.qn, cond, expr_str(f, n["i"])[:44]), db.loc(f, n),
                    "a %s read in this loop can be copied into the chunk text without the blanks in front of it being dropped: the line that "
                    "ends inside the chunk keeps its trailing blanks (chunk types %s)" % ("/".join("LF" if c == 10 else "CR" for c in bad), sorted(types) or "set by the caller"))
    # checked precondition of the exception for parse_next's two `while (cnt--)` loops: they copy strlen(punc->tag) characters
    # that find_punctuator() has just matched against the punctuator table; no entry of that table holds a line break or a blank
    rows = _tables(db)[1]
    r.require(len(rows) >= 90, "punctuator table not extracted")
    badrow = [t for t, _ in rows if any(c in t for c in "\n\r \t")]
    r.check(not badrow, "punctuator-table/no-line-break-or-blank", "src/symbols_table.h:1", "punctuator table entries with a line break or a blank: %r" % badrow)
    r.require(n_fn >= 6 and n_sites >= 20, "only %d functions / %d append sites examined" % (n_fn, n_sites))
    r.floor(20)


def rule_scan_level_agreement(ctx):
    c20.rule_scan_level_agreement(ctx)


RULES = [rule_single_writer, rule_strip, rule_tabs_off, rule_blank_buffer, rule_eof, rule_scan_level_agreement, rule_multi_line_chunk_text]
