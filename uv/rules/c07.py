"""C07 Disabled regions are copied through untouched.

Decided: routing of disabled text - while cpd.unc_off is set parse_next() tries parse_ignored() before any other parser;
parse_ignored() keeps every character of a non-blank line (up to the line end) in one CT_IGNORED chunk; tokenize() does
not strip such chunks; output_text() writes them through the raw branch of add_text(); no text-edit site names the
CT_IGNORED type; do_blank_lines() skips the newline after an ignored chunk; cpd.unc_off is reset per file.
Not decided: blank-line structure around a region (the newline passes work on neighbouring newline chunks), Pawn.
"""
from ..facts import expr_str, walk, enum_consts, global_path
from ..effects import effect_sites
from . import common_effects

OUT = "src/output.cpp"
TOK = "src/tokenizer/tokenize.cpp"


def _conds(f, n):
    return [(expr_str(f, cn), pol) for cn, pol in f.guard_conds(f.nblock[n["i"]]) if cn is not None]


def rule_first_dispatch(ctx):
    db = ctx.db
    r = ctx.rule("first-dispatch", "in parse_next every call of another parser is dominated by the `cpd.unc_off` test whose true edge calls "
                 "parse_ignored and returns on success")
    f = db.fn("parse_next", file=TOK)
    tests = [b for b, blk in f.blocks.items() if blk.get("term") and expr_str(f, blk["term"].get("lc", blk["term"].get("c"))) == "cpd.unc_off"]
    r.require(len(tests) == 1, "parse_next: %d tests of cpd.unc_off" % len(tests))
    tb = tests[0]
    ign = [n for n in f.all_nodes() if n["k"] == "call" and n.get("c") == "parse_ignored"]
    r.check(len(ign) == 1 and ("cpd.unc_off", True) in _conds(f, ign[0]), "parse_next/ignored-under-unc_off", db.loc(f, ign[0] if ign else f.l0), "parse_ignored is not called under cpd.unc_off")
    parsers = [n for n in f.all_nodes() if n["k"] == "call" and (n.get("c") or "").startswith(("parse_", "d_parse_", "extract_")) and n.get("c") != "parse_ignored"]
    r.require(len(parsers) >= 12, "parse_next calls %d parsers" % len(parsers))
    for n in parsers:
        r.seen()
        r.check(f.dominates_block(tb, f.nblock[n["i"]]), "parse_next/%s-after-unc_off-test" % n["c"], db.loc(f, n), "%s can run before the disabled-region test" % n["c"])
    # success of parse_ignored returns true immediately
    for n in ign:
        b = None
        for bb, blk in f.blocks.items():
            t = blk.get("term")
            if t and t.get("lc", t.get("c")) == n["i"]:
                b = bb
        ok = b is not None and any(x["k"] == "ret" and expr_str(f, x["i"]) == "return true" for x in f.blocks[f.succ[b][0]]["n"])
        r.check(ok, "parse_next/ignored-success-returns", db.loc(f, n), "a successful parse_ignored does not return immediately")
    # the text append sites of chars before the test: none (nothing consumes input before the test)
    gets = [n for n in f.all_nodes() if n["k"] == "call" and n.get("c") in ("TokenContext::get", "TokenContext::expect")]
    for n in gets:
        r.check(f.dominates_block(tb, f.nblock[n["i"]]), "parse_next/no-input-consumed-before-test", db.loc(f, n), "input is consumed before the disabled-region test")
    r.floor(12)


def rule_ignored_whole_line(ctx):
    db = ctx.db
    r = ctx.rule("ignored-is-whole-line", "parse_ignored appends every character up to (not including) CR/LF to the chunk, never discards one, and "
                 "every `return true` after that loop types the chunk CT_IGNORED")
    f = db.fn("parse_ignored", file=TOK)
    r.names(f, "ctx", "pc")
    par = f.parents()
    gets = [n for n in f.all_nodes() if n["k"] == "call" and n.get("c") == "TokenContext::get"]
    r.require(gets, "parse_ignored has no get()")
    for n in gets:
        r.seen()
        ps = [f.nodes[p] for p in par.get(n["i"], ())]
        ok = any(p["k"] == "call" and (p.get("c") or "").endswith("UncText::append") and expr_str(f, p.get("o")) == "pc.Str()" for p in ps)
        r.check(ok, "parse_ignored/get-is-appended", db.loc(f, n), "a character read in parse_ignored is not appended to the chunk text")
        cs = _conds(f, n)
        r.check(("ctx.peek() != '\\r'", True) in cs and ("ctx.peek() != '\\n'", True) in cs, "parse_ignored/stops-at-line-end", db.loc(f, n), "the copy loop is guarded by %s" % cs)
    sets = [n for n in f.all_nodes() if n["k"] == "call" and (n.get("c") or "").endswith("Chunk::SetType")]
    types = set(expr_str(f, n["a"][0]) for n in sets)
    r.check(types == {"CT_IGNORED"}, "parse_ignored/types", db.loc(f, f.l0), "parse_ignored assigns %s" % sorted(types))
    # no text mutation other than append/clear
    for n in f.all_nodes():
        if n["k"] == "call" and (n.get("c") or "").startswith("UncText::") and not n.get("cq") and expr_str(f, n.get("o")) == "pc.Str()":
            meth = n["c"].split("::")[-1]
            r.check(meth in ("append", "clear"), "parse_ignored/text-only-appended/%s" % meth, db.loc(f, n), "parse_ignored applies %s to the chunk text" % meth)
    # every return true after the copy loop passes SetType(CT_IGNORED), except the one that restores and re-parses (returns false)
    for n in f.all_nodes():
        if n["k"] == "ret" and expr_str(f, n["i"]) == "return true":
            from ..flow import resolved_conds, ReachingDefs as _RDc
            cs = resolved_conds(f, _RDc(f, db), f.nblock[n["i"]])
            if any(c[0].startswith(("parse_off_newlines", "parse_comment")) and c[1] for c in cs):
                continue      # a newline chunk / the comment carrying the enable marker, typed by their own parsers
            w = f.paths_avoiding(gets[0]["i"], lambda x: x["i"] == n["i"], lambda x: x["k"] == "call" and (x.get("c") or "").endswith("Chunk::SetType"))
            r.check(w is None, "parse_ignored/true-implies-typed", db.loc(f, n), "parse_ignored can return true with the chunk untyped")
    r.floor(6)


def rule_no_strip(ctx):
    db = ctx.db
    r = ctx.rule("no-strip", "the trailing-blank strip of tokenize() is controlled by GetType() != CT_IGNORED")
    f = db.fn("tokenize", file=TOK)
    pops = [n for n in f.all_nodes() if n["k"] == "call" and (n.get("c") or "").endswith("::pop_back") and expr_str(f, n.get("o")) == "chunk.Str()"]
    r.require(len(pops) == 1, "strip site not found")
    r.check(("chunk.GetType() != CT_IGNORED", True) in _conds(f, pops[0]), "tokenize/strip-skips-ignored", db.loc(f, pops[0]), "ignored chunks are stripped of trailing blanks")
    # tokenize() does not otherwise edit the text of a parsed chunk (besides the newline normalisations)
    for n in f.all_nodes():
        if n["k"] == "call" and (n.get("c") or "").startswith("UncText::") and not n.get("cq") and expr_str(f, n.get("o")) == "chunk.Str()" and n["i"] != pops[0]["i"]:
            cs = _conds(f, n)
            ok = any(c[0] in ("chunk.GetType() == CT_NEWLINE", "chunk.GetType() == CT_NL_CONT") and c[1] for c in cs)
            r.check(ok, "tokenize/text-edit/%s" % n["c"].split("::")[-1], db.loc(f, n), "tokenize edits the chunk text under %s" % cs)
    r.floor(2)


def rule_raw_emit(ctx):
    db = ctx.db
    r = ctx.rule("raw-emit", "output_text writes CT_IGNORED/CT_JUNK chunks with add_text(pc->GetStr(), true) only; add_text's is_ignored edge "
                 "calls write_char directly (no column, tab or blank logic)")
    o = db.fn("output_text", file=OUT)
    r.names(o, "pc")
    raw = [n for n in o.all_nodes() if n["k"] == "call" and n.get("c") == "add_text" and len(n.get("a", ())) >= 2 and ("pc->Is(CT_JUNK) || pc->Is(CT_IGNORED)", True) in _conds(o, n)]
    r.require(len(raw) >= 1, "output_text: no add_text call under the CT_JUNK/CT_IGNORED test")
    n = raw[0]
    r.check(len(raw) == 1 and o.nodes[n["a"][1]].get("k") == "bool" and o.nodes[n["a"][1]]["v"] == 1, "output_text/raw-flag-literal-true", db.loc(o, n),
            "ignored chunks are written with is_ignored = `%s` instead of the literal true" % expr_str(o, n["a"][1]))
    cs = _conds(o, n)
    r.check(("pc->Is(CT_JUNK) || pc->Is(CT_IGNORED)", True) in cs and expr_str(o, n["a"][0]) == "pc->GetStr()", "output_text/raw-branch", db.loc(o, n), "raw write under %s" % cs)
    b = o.nblock[n["i"]]
    others = [x for x in o.blocks[b]["n"] if x["k"] == "call" and x.get("c") in ("add_text", "add_char", "output_to_column", "reindent_line") and x["i"] != n["i"] and "LOG_FMT" not in x.get("mac", ())]
    r.check(not others, "output_text/raw-branch-only-writes", db.loc(o, n), "the raw branch also calls %s" % [expr_str(o, x["i"]) for x in others])
    # no other branch handles CT_IGNORED
    for x in o.all_nodes():
        if x["k"] == "call" and x.get("c") in ("add_text", "output_to_column") and x["i"] != n["i"]:
            c2 = _conds(o, x)
            if ("pc->Is(CT_JUNK) || pc->Is(CT_IGNORED)", True) in c2:
                r.fail("output_text/second-writer-for-ignored", db.loc(o, x), "another writer runs for ignored chunks: %s" % expr_str(o, x["i"]))
    t = [f for f in db.fns("add_text") if f.file == OUT and "UncText" in f.d["sig"]][0]
    wc = [x for x in t.all_nodes() if x["k"] == "call" and x.get("c") == "write_char"]
    r.check(len(wc) == 1 and ("is_ignored", True) in _conds(t, wc[0]) and expr_str(t, wc[0]["a"][0]) == "ch", "add_text/raw-write", db.loc(t, t.l0), "add_text's raw branch changed")
    ac = [x for x in t.all_nodes() if x["k"] == "call" and x.get("c") == "add_char"]
    r.check(all(("is_ignored", False) in _conds(t, x) for x in ac), "add_text/cooked-only-if-not-ignored", db.loc(t, t.l0), "add_char also runs for ignored text")
    r.floor(4)


def rule_effects(ctx):
    db = ctx.db
    r = common_effects.effects_rule(ctx, common_effects.FAMILIES, "shared effect census (C04.effects); additionally no text-edit/delete/move site is "
                                    "controlled by a test that the chunk IS of type CT_IGNORED")
    for f, n, kind, detail in effect_sites(db):
        for cn, pol in f.guard_conds(f.nblock[n["i"]]):
            if cn is not None and pol is True and "CT_IGNORED" in enum_consts(f, cn):
                s = expr_str(f, cn)
                if "IsNot(CT_IGNORED)" in s or "!= CT_IGNORED" in s:
                    continue
                if f.qn in ("output_text",):
                    continue
                r.fail("%s/%s-on-ignored" % (f.qn, kind), db.loc(f, n), "%s of `%s` runs under `%s`: disabled-region text can be edited" % (kind, detail, s))


def rule_blank_lines_skip(ctx):
    db = ctx.db
    r = ctx.rule("region-boundaries", "do_blank_lines leaves the newline after a CT_IGNORED chunk alone; cpd.unc_off is cleared by uncrustify_end on every path")
    f = db.fn("do_blank_lines", file="src/newlines/blank_line.cpp")
    # a line break with a line of a disabled region on either side belongs to the region: both neighbours are tested, on the
    # chunks that touch the line break (a test past a comment takes the line break behind an indented enable marker for one of
    # the region and lets nl_max cut the blank lines behind the disable marker)
    want = {"pc->GetPrev(ALL)->Is(CT_IGNORED)": "prev", "pc->GetNext(ALL)->Is(CT_IGNORED)": "next"}
    conts = [(b, want[expr_str(f, blk["term"].get("lc", blk["term"].get("c")))]) for b, blk in f.blocks.items()
             if blk.get("term") and expr_str(f, blk["term"].get("lc", blk["term"].get("c"))) in want]
    r.check(set(w for b, w in conts) == {"prev", "next"}, "do_blank_lines/skips-after-ignored", db.loc(f, f.l0),
            "do_blank_lines() does not skip a line break for each of `pc->GetPrev()->Is(CT_IGNORED)` and `pc->GetNext()->Is(CT_IGNORED)` (found: %s)"
            % sorted(w for b, w in conts))
    for b, which in conts:
        # the true edge goes straight to the loop increment: no SetNlCount / blank_line_* reachable before the back edge
        w = f.paths_avoiding(f.succ[b][0], lambda n: n["k"] == "call" and ((n.get("c") or "").endswith("SetNlCount") or (n.get("c") or "").startswith("blank_line_")),
                             lambda n: n["k"] == "call" and n.get("c") == "Chunk::GetNext" and expr_str(f, n.get("o")) == "pc", start_is_node=False)
        r.check(w is None, "do_blank_lines/skip-changes-nothing/%s" % which, db.loc(f, f.blocks[b]["term"]["l"]), "the skip path still changes a newline count")
    e = db.fn("uncrustify_end", file="src/uncrustify.cpp")
    st = [n for n in e.all_nodes() if n["k"] == "asg" and global_path(e, n["a"][0]) == "cpd.unc_off" and expr_str(e, n["a"][1]) == "false"]
    r.check(len(st) == 1 and e.exit_reachable_avoiding(e.entry, lambda n: n["i"] == st[0]["i"], start_is_node=False) is None, "uncrustify_end/clears-unc_off", db.loc(e, e.l0),
            "uncrustify_end does not clear cpd.unc_off on every path: a region left open in one file disables formatting of the next")
    r.floor(3)


def rule_newline_guards(ctx):
    """The generic newline editors are handed (before, after) pairs by ~40 option handlers; when `after` is a line of a
    disabled region, removing or adding the line break in front of it glues or splits region lines.  Both entry points
    refuse the edit when their second chunk is CT_IGNORED - sibling agreement on which argument is tested."""
    db = ctx.db
    r = ctx.rule("newline-guards", "newline_iarf_pair(before, after, ..) and newline_add_between(start, end) return before any edit when "
                 "their second chunk parameter is CT_IGNORED (the test dominates every call of newline_add_between/newline_del_between and "
                 "every chunk creation in them)")
    for qn, file in (("newline_iarf_pair", "src/newlines/iarf.cpp"), ("newline_add_between", "src/newlines/add.cpp")):
        f = db.fn(qn, file=file)
        ps = [p["n"] for p in f.d.get("params", ()) if p["t"].replace("const ", "").strip() in ("Chunk *", "class Chunk *")]
        r.require(len(ps) >= 2, "%s no longer takes two chunks" % qn)
        second = ps[1]
        want = "%s->Is(CT_IGNORED)" % second
        # edits: calls that add/delete newlines or create chunks
        edits = [n for n in f.all_nodes() if n["k"] == "call" and (n.get("c") in ("newline_add_between", "newline_del_between", "newline_add_before", "newline_add_after",
                                                                                    "Chunk::CopyAndAddBefore", "Chunk::CopyAndAddAfter", "Chunk::Delete")
                                                                    or (n.get("c") or "").endswith("::SetNlCount"))]
        r.require(edits, "%s contains no newline edit" % qn)
        for n in edits:
            r.seen()
            leaves = set()
            for cn, pol in f.guard_conds(f.nblock[n["i"]]):
                if cn is None or pol is not False:
                    continue
                # a false `a || b || c` makes every disjunct false
                stack = [cn]
                while stack:
                    x = f.nodes.get(stack.pop())
                    if x is None:
                        continue
                    if x["k"] == "bin" and x.get("op") == "||":
                        stack.extend(x["a"])
                    elif x["k"] == "cast":
                        stack.append(x["a"][0])
                    else:
                        leaves.add(expr_str(f, x["i"]))
            r.check(want in leaves, "%s/%s-not-ignored/%s" % (qn, second, (n.get("c") or "?").split("::")[-1]), db.loc(f, n),
                    "%s() edits a line break without having excluded that `%s` (the chunk after the break) is a line of a disabled region; "
                    "excluded here: %s" % (qn, second, sorted(x for x in leaves if "IGNORED" in x) or "nothing about CT_IGNORED"))
    # every deletion of a line break asks Chunk::SafeToDeleteNl() (C02.newline-crossing): it must say no on both sides of a
    # region line
    sfs = [g for g in db.fns("Chunk::SafeToDeleteNl")]
    r.require(len(sfs) >= 1, "Chunk::SafeToDeleteNl not found")
    g = sfs[0]
    sides = set()
    for n in g.all_nodes():
        if n["k"] == "ret" and n.get("a") and (g.nodes.get(n["a"][0]) or {}).get("k") == "bool" and not g.nodes[n["a"][0]]["v"]:
            for cn, pol in g.guard_conds(g.nblock[n["i"]]):
                t = expr_str(g, cn) if cn is not None else ""
                if pol is True and "CT_IGNORED" in t:
                    for part in t.split(" || "):
                        if "Is(CT_IGNORED)" in part:
                            sides.add("next" if "GetNext" in part else "prev")
    r.seen()
    r.check(sides == {"prev", "next"}, "SafeToDeleteNl/false-next-to-a-region-line", db.loc(g, g.l0),
            "Chunk::SafeToDeleteNl() does not refuse a line break whose %s chunk is CT_IGNORED: options that remove newlines (nl_fdef_brace=remove "
            "...) join the lines of a disabled region" % "/".join(sorted({"prev", "next"} - sides)))
    r.floor(4)


def rule_region_uncounted(ctx):
    from . import c08
    c08.rule_region_uncounted(ctx)


RULES = [rule_first_dispatch, rule_ignored_whole_line, rule_no_strip, rule_raw_emit, rule_effects, rule_blank_lines_skip, rule_newline_guards, rule_region_uncounted]
