"""Constant folding of expressions under an abstract configuration: option name -> finite set of integer values.
Values are frozensets of ints (bool = 0/1); None = unknown."""
from .facts import option_of, is_option_read
from .flow import var_id


def _bin(op, a, b):
    try:
        if op == "==":
            return int(a == b)
        if op == "!=":
            return int(a != b)
        if op == "<":
            return int(a < b)
        if op == ">":
            return int(a > b)
        if op == "<=":
            return int(a <= b)
        if op == ">=":
            return int(a >= b)
        if op == "+":
            return a + b
        if op == "-":
            return a - b
        if op == "&":
            return a & b
        if op == "|":
            return a | b
    except Exception:
        return None
    return None


class Folder(object):
    def __init__(self, f, rd, env, consts=None, dead_node=None):
        self.f = f
        self.rd = rd
        self.env = env
        self.consts = consts or {}
        self.dead_node = dead_node      # callback(node) -> True if the node cannot execute under env
        self._busy = set()

    def fold(self, i, at=None, depth=0):
        f = self.f
        n = f.nodes.get(i)
        if n is None or depth > 8:
            return None
        at = i if at is None else at
        k = n["k"]
        if k in ("int", "chr"):
            return frozenset([n["v"]])
        if k == "bool":
            return frozenset([int(n["v"])])
        if k == "cast":
            return self.fold(n["a"][0], at, depth + 1)
        if k == "call":
            o = option_of(f, n)
            if o is not None:
                v = self.env.get(o)
                return frozenset(v) if v is not None else None
            if n.get("op") in ("==", "!=", "&", "|") and n.get("a") and "o" not in n and len(n["a"]) == 2:
                return self._binop(n["op"], n["a"][0], n["a"][1], at, depth)
            if n.get("op") in ("==", "!=", "&", "|") and "o" in n and len(n.get("a", ())) == 1:
                return self._binop(n["op"], n["o"], n["a"][0], at, depth)
            c = n.get("c") or ""
            if c.split("::")[-1].startswith("operator ") and "o" in n:
                return self.fold(n["o"], at, depth + 1)
            return None
        if k == "ref":
            if n.get("d") == "ec":
                return frozenset([n["v"]])
            if n.get("d") == "gv" and n.get("n") in self.consts:
                return frozenset([self.consts[n["n"]]])
            if n.get("d") in ("lv",):
                vals = set()
                pos = i if i in f.nblock else at          # the reference's own program point is the most precise
                defs = self.rd.at(pos, var_id(n))
                if not defs:
                    return None
                if self.dead_node is not None and len(defs) > 1:
                    live = []
                    for d in defs:
                        key = d[1]["i"]
                        if key in self._busy:
                            live.append(d)
                            continue
                        self._busy.add(key)
                        try:
                            if not self.dead_node(d[1]):
                                live.append(d)
                        finally:
                            self._busy.discard(key)
                    defs = live or defs
                def_blocks = set(f.nblock[d[1]["i"]] for d in defs)
                for info in defs:
                    rhs = self.rd.rhs_of(info)
                    if rhs is None or info[0] not in ("decl", "asg") or (info[0] == "asg" and info[1]["op"] != "="):
                        return None
                    v = self.fold(rhs, info[1]["i"], depth + 1)
                    if v is None:
                        return None
                    # refine by the branch facts that hold on every path from this definition to the use that does not
                    # pass another definition of the variable (e.g. `if (x == -1) x = y;` : via the declaration x != -1)
                    v = self._refine(v, n, info[1]["i"], pos, def_blocks - {f.nblock[info[1]["i"]]})
                    vals |= v
                return frozenset(vals)
            return None
        if k == "un":
            v = self.fold(n["a"][0], at, depth + 1)
            if v is None:
                return None
            if n["op"] == "!":
                return frozenset(int(not x) for x in v)
            if n["op"] == "-":
                return frozenset(-x for x in v)
            return None
        if k == "bin":
            op = n["op"]
            if op in ("&&", "||"):
                a = self.fold(n["a"][0], at, depth + 1)
                b = self.fold(n["a"][1], at, depth + 1)
                ta = None if a is None else set(bool(x) for x in a)
                tb = None if b is None else set(bool(x) for x in b)
                if op == "&&":
                    if ta == {False} or tb == {False}:
                        return frozenset([0])
                    if ta == {True} and tb == {True}:
                        return frozenset([1])
                else:
                    if ta == {True} or tb == {True}:
                        return frozenset([1])
                    if ta == {False} and tb == {False}:
                        return frozenset([0])
                return None
            return self._binop(op, n["a"][0], n["a"][1], at, depth)
        if k == "cond":
            c = self.fold(n["a"][0], at, depth + 1)
            a = self.fold(n["a"][1], at, depth + 1)
            b = self.fold(n["a"][2], at, depth + 1)
            if c is not None and all(c) and a is not None:
                return a
            if c is not None and not any(c) and b is not None:
                return b
            if a is not None and b is not None:
                return a | b
            return None
        return None

    def _refine(self, vals, varnode, def_id, use_id, kill_blocks):
        f = self.f
        bu, bd = f.nblock.get(use_id), f.nblock.get(def_id)
        if bu is None or bd is None:
            return vals
        # blocks from which the use is reachable without entering a kill block
        back = set()
        work = [bu]
        while work:
            b = work.pop()
            if b in back:
                continue
            back.add(b)
            if b == bd:
                continue
            for p in f.pred[b]:
                if p not in kill_blocks or p == bd:
                    work.append(p)
        fwd = set()
        work = [bd]
        while work:
            b = work.pop()
            if b in fwd or b not in back:
                continue
            fwd.add(b)
            if b == bu and b != bd:
                continue
            for s2 in f.succ[b]:
                if s2 >= 0 and s2 not in kill_blocks:
                    work.append(s2)
        out = set(vals)
        name = varnode["n"]
        for b in fwd:
            if b == bu:
                continue
            ss = f.succ[b]
            if len(ss) != 2:
                continue
            live = [i for i, s2 in enumerate(ss) if s2 in back and s2 not in kill_blocks]
            if len(live) != 1:
                continue
            # the block must lie on every path from the definition to the use (within the kill-free subgraph)
            if b != bd:
                seen2 = set()
                work2 = [bd]
                reached = False
                while work2:
                    x = work2.pop()
                    if x in seen2 or x == b or x not in back:
                        continue
                    seen2.add(x)
                    if x == bu:
                        reached = True
                        break
                    for s3 in f.succ[x]:
                        if s3 >= 0 and s3 not in kill_blocks:
                            work2.append(s3)
                if reached:
                    continue
            ec = f.edge_cond(b, live[0])
            if ec is None or not isinstance(ec[1], bool):
                continue
            for cn, pol in f.expand_cond(ec[0], ec[1]):
                c = f.nodes.get(cn)
                if c is None or c["k"] != "bin" or c["op"] not in ("==", "!="):
                    continue
                l, r = f.nodes.get(c["a"][0]), f.nodes.get(c["a"][1])
                if l is None or r is None or l["k"] != "ref" or l["n"] != name or l.get("dl") != varnode.get("dl"):
                    continue
                kv = r["v"] if r["k"] in ("int", "chr") else (-f.nodes[r["a"][0]]["v"] if r["k"] == "un" and r["op"] == "-" and f.nodes.get(r["a"][0], {}).get("k") == "int" else None)
                if kv is None:
                    continue
                eq = (c["op"] == "==") == pol
                out = set(x for x in out if (x == kv) == eq)
        return frozenset(out)

    def _binop(self, op, x, y, at, depth):
        a = self.fold(x, at, depth + 1)
        b = self.fold(y, at, depth + 1)
        if a is None or b is None:
            return None
        out = set()
        for p in a:
            for q in b:
                v = _bin(op, p, q)
                if v is None:
                    return None
                out.add(v)
        return frozenset(out)

    def truth(self, i, at=None):
        v = self.fold(i, at)
        if v is None:
            return None
        t = set(bool(x) for x in v)
        return True if t == {True} else (False if t == {False} else None)
