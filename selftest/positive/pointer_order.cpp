// positive example for C10.no-address-dependence: must match on every run
#include <map>
struct Chunk { int x; };
bool before(Chunk *a, Chunk *b)
{
   return(a < b);
}
int walk_ptr_keyed()
{
   static std::map<Chunk *, int> m;
   int s = 0;
   for (auto &kv : m) { s += kv.second; }
   return(s);
}
