// positive example for C03.stuck-iteration: the comparison never moves (the defect of tag_compare() on the pinned tree)
#include <deque>
#include <cstddef>

bool stuck_compare(const std::deque<int> &d, size_t a_idx, size_t b_idx, size_t len)
{
   while (len-- > 0)
   {
      if (d[a_idx] != d[b_idx])
      {
         return(false);
      }
   }
   return(true);
}

bool moving_compare(const std::deque<int> &d, size_t a_idx, size_t b_idx, size_t len)
{
   while (len-- > 0)
   {
      if (d[a_idx++] != d[b_idx++])
      {
         return(false);
      }
   }
   return(true);
}
