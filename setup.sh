#!/bin/sh
# Build the fact extractor from files on disk only (offline).
set -e
cd "$(dirname "$0")"
mkdir -p bin
clang++ $(llvm-config-14 --cxxflags) -fno-rtti -O1 tools/uvfacts.cc -o bin/uvfacts.new \
   /usr/lib/llvm-14/lib/libclang-cpp.so.14 /usr/lib/llvm-14/lib/libLLVM-14.so
mv bin/uvfacts.new bin/uvfacts
echo "setup: built bin/uvfacts"
