#!/usr/bin/env python3
"""fill the totals of DESIGN.md section 8 from seeded/results.json and the mutant directory (idempotent: works on the markers
or on a previously filled block)"""
import glob, json, re
V = "/verif/"
res = json.load(open(V + "seeded/results.json"))
n = len(res)
own = sum(r["status"] == "detected" for r in res)
sib = sum(r["status"] == "missed" and bool(r.get("also_fired")) for r in res)
other = [r["seed"] for r in res if r["status"] not in ("detected", "missed")]
missed = sum(r["status"] == "missed" and not r.get("also_fired") for r in res)
nmut = len(glob.glob(V + "selftest/mutants/*/*.patch"))
txt = ("<!-- totals:begin -->\nOver the four rounds (run of `seeded/run --all-checks` recorded in `seeded/results.json`): %d of %d independent changes are "
       "reported by the property's own check, %d more only by a sibling property's check, %d end as analysis-broken or no longer apply (%s), "
       "and %d are reported by no check - these are the changes whose broken clause is arithmetic, a table of the language or the semantics of "
       "a frame stack (`seeded/README.md` names the reason per change).\n<!-- totals:end -->"
       % (own, n, sib, len(other), ", ".join(other) or "none", missed))
s = open(V + "DESIGN.md").read()
if "@@TOTALS@@" in s:
    s = s.replace("@@TOTALS@@", txt)
else:
    s = re.sub(r"<!-- totals:begin -->.*?<!-- totals:end -->", lambda m: txt, s, flags=re.S)
s = re.sub(r"\(@@NMUT@@ patches\)|\(\d+ patches\)", "(%d patches)" % nmut, s, count=1)
import subprocess
nfix = sum(1 for l in subprocess.run(["git", "-C", "/repo", "log", "--format=%s"], stdout=subprocess.PIPE, text=True).stdout.splitlines() if l.startswith("fix:"))
s = re.sub(r"defects found \((@@NFIX@@|\d+) repaired", "defects found (%d repaired" % nfix, s, count=1)
open(V + "DESIGN.md", "w").write(s)
print("totals: %d/%d own, %d sibling-only, %d other, %d missed; %d mutants" % (own, n, sib, len(other), missed, nmut))
