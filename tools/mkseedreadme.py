#!/usr/bin/env python3
"""Regenerate seeded/README.md from seeded/results.json (written by seeded/run --all-checks), the seeds' meta.json and
the hand-written one-line descriptions / dispositions below."""
import json
import os

VERIF = os.path.dirname(os.path.dirname(os.path.abspath(__file__)))
S = os.path.join(VERIF, "seeded")

WHAT = {
    "C02-A": "space_text: punctuator re-lex test changed to 'exact fusion only' (`+` `++` → `+++`)",
    "C02-B": "class_colon_pos: SafeToDeleteNl replaced by a preprocessor-only test before swapping the colon with a newline",
    "C03-A": "parse_cr_string: raw-string delimiter of exactly 16 characters rejected (off by one)",
    "C03-B": "class_colon_pos: SafeToDeleteNl dropped before the colon/newline swap (colon lands in a // comment)",
    "C04-A": "examine_brace: `while` over virtual brace closes became `if` (dangling else re-binds)",
    "C04-B": "remove_extra_returns: level test `< 2` became `<= 2` (early return in a brace-less if removed)",
    "C06-A": "parse_comment: end-of-file arm removed; two-character `/*` chunk reaches Str().at(2)",
    "C06-B": "tokenize_cleanup: EXEC SQL loop no longer stops at the null chunk (hang)",
    "C07-A": "add_text: is_ignored parameter dropped; region text goes through add_char's blank buffering",
    "C07-B": "newline_iarf_pair: CT_IGNORED test moved from `after` to `before`",
    "C08-A": "cpd.le_counts reset moved into tokenize(), which is re-entered for inserted comment templates",
    "C08-B": "calculate_comment_body_indent: CRLF skip looks one character too late",
    "C09-A": "write_utf16 refactored; `ch - 0x10000` lost for the high surrogate",
    "C09-B": "BOM decision switches on the detected encoding instead of the (possibly forced) output encoding",
    "C10-A": "sorting.cpp: include-category caches kept across files",
    "C10-B": "space_text: restore_options_for_QT() ends up inside `if (log_sev_on(LSPACE))`",
    "C11-A": "sort_imports: cleanup_categories() skipped when no category is configured (text-keyed cache survives)",
    "C11-B": "uncrustify_end: early return for an empty chunk list skips the per-file resets",
    "C12-A": "main returns cpd.check_fail_cnt as the exit status (wraps modulo 256)",
    "C12-B": "--if-changed writes the buffer with fputs() (stops at the first NUL: UTF-16 truncated)",
    "C13-A": "ferror(pfout) replaced by fflush()+fsync() before the rename",
    "C13-B": "make_output_filename strips a leading `./` (in-place detection by name fails: no temp file, no backup)",
    "C14-A": "need_backup cleared in the 'no change' branch (md5 not refreshed)",
    "C14-B": "MD5::Update: `>= 64` became `> 64` (digest depends on chunking)",
    "C15-A": "load_option_file erases the line at the first `#` before the quote-aware splitter sees it",
    "C15-B": "extension_add stores the user's spelling of the language, the writer selects by canonical name",
    "C16-A": "read_number validates the referenced value before negating it",
    "C16-B": "`using` version check: empty-part test dropped before std::stoi",
    "C17-A": "parse_next: skip of blanks after a backslash in directive bodies removed (line ends in `\\ `)",
    "C17-B": "output_text: align_keep_tabs block moved behind the if/else (applies to line starts too)",
    "C18-A": "indent_text: brace-owner list replaced by token_indent() (try/catch missing)",
    "C18-B": "ParsingFrameStack::check: `#else` frame rebuilt only on the first branch of an `#if` chain",
    "C19-A": "do_space: sp_macro_func block reads options::sp_macro() (through a local)",
    "C19-B": "handle_cpp_lambda: original column of the split `]` derived from the `[`",
    "C20-A": "newlines_eat_start_end: start-of-file guard compares with nl_end_of_file_min",
    "C20-B": "can_increase_nl: nl_before_namespace block moved in front of the eat_blanks_before_close_brace veto",
}
FIRST = {  # result of the first run, before any rule was changed in response to the seeds
    "C06-B", "C07-A", "C09-A", "C09-B", "C10-B", "C11-A", "C11-B", "C12-A", "C12-B", "C14-A", "C16-A", "C19-A", "C20-A",
}
AFTER = {  # rule added / tightened after the miss (DESIGN.md section 4)
    "C02-A": "C02.fusion-table (new)", "C02-B": "C02.newline-crossing (new)", "C03-B": "C03.newline-crossing (new)",
    "C04-A": "C04.remove-precondition: else-test-on-real-token (new obligation)", "C07-B": "C07.newline-guards (new)",
    "C08-A": "C08.census-monotone (new); was caught by C11.reset only", "C10-A": "C11.reset run as an obligation of C10; was caught by C11 only",
    "C13-A": "C13.write-error-checked: ferror must feed the flag (tightened)", "C13-B": "C13.inplace-name (new)",
    "C15-A": "C15.line-verbatim (new)", "C15-B": "C15.ext-map-domain (new)",
    "C16-A": "C16.store-after-validate: stores-what-was-validated (new obligation); the first-run report by C16.fail-warns was a false alarm on an equivalent shape and was corrected",
    "C16-B": "C16.no-throw: non-empty check required (tightened: the rule was unsound for \"\")",
    "C17-A": "C17.strip: preproc-body/no-blank-after-backslash (new obligation)", "C17-B": "C17.tabs-off: definitions after the join (tightened)",
    "C20-B": "C20.eat-blanks: veto priority path check (new obligation)",
}
NOT_DECIDED = {
    "C03-A": "a lexical constant of the language (delimiter length 16)",
    "C04-B": "a level number",
    "C08-B": "index arithmetic inside one loop",
    "C14-B": "MD5 block arithmetic",
    "C18-A": "which token kinds own a brace is a table of the language, not a shape of the code",
    "C18-B": "frame-stack semantics of the preprocessor",
    "C19-B": "original-column arithmetic",
}


def main():
    res = {r["seed"]: r for r in json.load(open(os.path.join(S, "results.json")))}
    out = ["# Independently written breaking changes and which check reports them", "",
           "Each directory `<ID>-<X>/` holds `patch.diff` (against /repo HEAD as recorded in meta.json), `demo.sh <uncrustify>` (exit 0 = property",
           "holds for the scenario), `notes.md` (the author's cover story, mechanism, what it needs to manifest) and `meta.json` (property, how it was",
           "confirmed). Written by sub-agents that saw only the property record and a scratch worktree; confirmed by re-running the demo against",
           "the unchanged and the changed binary and the full test suite on the changed tree. `seeded/run --all-checks` regenerates `results.json`.", "",
           "| seed | change | first run | now reported by | note |", "|---|---|---|---|---|"]
    n_own = 0
    for sid in sorted(res):
        r = res[sid]
        rules = sorted(set(v["rule"] for v in r.get("own_violations", [])))
        inst = "; ".join("%s[%s]" % (v["rule"], (v["instance"] or "")[:50]) for v in r.get("own_violations", [])[:2])
        meta = json.load(open(os.path.join(S, sid, "meta.json")))
        note = AFTER.get(sid, "")
        if sid in NOT_DECIDED:
            note = "not decided: " + NOT_DECIDED[sid]
        if meta.get("status"):
            note = (note + "; " if note else "") + meta["status"]
        if r["status"] == "detected":
            n_own += 1
        also = (" (also: %s)" % ",".join(r["also_fired"])) if r.get("also_fired") else ""
        out.append("| %s | %s | %s | %s%s | %s |" % (sid, WHAT.get(sid, ""), "reported" if sid in FIRST else "missed",
                                                    inst if r["status"] == "detected" else "—", also, note))
    out += ["", "%d of %d reported by the property's own check." % (n_own, len(res)), ""]
    open(os.path.join(S, "README.md"), "w").write("\n".join(out))
    print("seeded/README.md: %d seeds, %d reported by own check" % (len(res), n_own))


main()
