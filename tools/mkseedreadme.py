#!/usr/bin/env python3
"""Regenerate seeded/README.md from seeded/results.json (written by seeded/run --all-checks), the seeds' meta.json and
the hand-written one-line descriptions / dispositions below."""
import json
import os

VERIF = os.path.dirname(os.path.dirname(os.path.abspath(__file__)))
S = os.path.join(VERIF, "seeded")

WHAT = {
    "C02-A": "space_text: punctuator re-lex test changed to 'exact fusion only' (`+` `++` → `+++`)",
    "C02-B": "class_colon_pos: SafeToDeleteNl replaced by a preprocessor-only test before swapping the colon with a newline",
    "C03-A": "parse_cr_string: raw-string delimiter of exactly 16 characters rejected (off by one)",
    "C03-B": "class_colon_pos: SafeToDeleteNl dropped before the colon/newline swap (colon lands in a // comment)",
    "C04-A": "examine_brace: `while` over virtual brace closes became `if` (dangling else re-binds)",
    "C04-B": "remove_extra_returns: level test `< 2` became `<= 2` (early return in a brace-less if removed)",
    "C06-A": "parse_comment: end-of-file arm removed; two-character `/*` chunk reaches Str().at(2)",
    "C06-B": "tokenize_cleanup: EXEC SQL loop no longer stops at the null chunk (hang)",
    "C07-A": "add_text: is_ignored parameter dropped; region text goes through add_char's blank buffering",
    "C07-B": "newline_iarf_pair: CT_IGNORED test moved from `after` to `before`",
    "C08-A": "cpd.le_counts reset moved into tokenize(), which is re-entered for inserted comment templates",
    "C08-B": "calculate_comment_body_indent: CRLF skip looks one character too late",
    "C09-A": "write_utf16 refactored; `ch - 0x10000` lost for the high surrogate",
    "C09-B": "BOM decision switches on the detected encoding instead of the (possibly forced) output encoding",
    "C10-A": "sorting.cpp: include-category caches kept across files",
    "C10-B": "space_text: restore_options_for_QT() ends up inside `if (log_sev_on(LSPACE))`",
    "C11-A": "sort_imports: cleanup_categories() skipped when no category is configured (text-keyed cache survives)",
    "C11-B": "uncrustify_end: early return for an empty chunk list skips the per-file resets",
    "C12-A": "main returns cpd.check_fail_cnt as the exit status (wraps modulo 256)",
    "C12-B": "--if-changed writes the buffer with fputs() (stops at the first NUL: UTF-16 truncated)",
    "C13-A": "ferror(pfout) replaced by fflush()+fsync() before the rename",
    "C13-B": "make_output_filename strips a leading `./` (in-place detection by name fails: no temp file, no backup)",
    "C14-A": "need_backup cleared in the 'no change' branch (md5 not refreshed)",
    "C14-B": "MD5::Update: `>= 64` became `> 64` (digest depends on chunking)",
    "C15-A": "load_option_file erases the line at the first `#` before the quote-aware splitter sees it",
    "C15-B": "extension_add stores the user's spelling of the language, the writer selects by canonical name",
    "C16-A": "read_number validates the referenced value before negating it",
    "C16-B": "`using` version check: empty-part test dropped before std::stoi",
    "C17-A": "parse_next: skip of blanks after a backslash in directive bodies removed (line ends in `\\ `)",
    "C17-B": "output_text: align_keep_tabs block moved behind the if/else (applies to line starts too)",
    "C18-A": "indent_text: brace-owner list replaced by token_indent() (try/catch missing)",
    "C18-B": "ParsingFrameStack::check: `#else` frame rebuilt only on the first branch of an `#if` chain",
    "C19-A": "do_space: sp_macro_func block reads options::sp_macro() (through a local)",
    "C19-B": "handle_cpp_lambda: original column of the split `]` derived from the `[`",
    "C20-A": "newlines_eat_start_end: start-of-file guard compares with nl_end_of_file_min",
    "C20-B": "can_increase_nl: nl_before_namespace block moved in front of the eat_blanks_before_close_brace veto",
    # second round
    "C02-C": "tokenize(): trailing-blank strip rewritten with one resize; the keep-one-blank-after-backslash test looks at the wrong index",
    "C02-D": "newlines_do_else: the `{` is searched with E_Scope::PREPROC and then moved across a directive by newline_del_between()",
    "C03-C": "tokenize_cleanup: conversion-operator type words gathered with GetNextNcNnl(); the clean-up loop then deletes the comments in between",
    "C03-D": "remove_next_newlines: SafeToDeleteNl() replaced by a preprocessor-only test",
    "C04-C": "paren_multiline_before_brace: level argument of GetPrevType dropped (open and close brace vetoed separately)",
    "C04-D": "remove_duplicate_include: the list of seen includes became a never-cleared static",
    "C06-C": "ParsingFrameStack::check: 'pp level is ZERO' guards removed (empty frame vector indexed)",
    "C06-D": "parse_next: the garbage-character message lost its trailing newline (never flushed before exit)",
    "C07-C": "parse_next: the disable_processing_nl_cont scan moved in front of the disabled-region test",
    "C07-D": "parse_newline counts line endings (region content decides the file's terminator)",
    "C08-C": "tokenize(): the newlines=auto choice rewritten as a running maximum that forgets CRLF",
    "C08-D": "parse_macro: continuation look-ahead accepts blanks but tests '\\n' only (CR files)",
    "C09-C": "decode_utf16: BMP test moved first with upper edge 0xDC00 (lone low surrogate accepted)",
    "C09-D": "encode_utf8: thresholds rewritten as inclusive bounds, 3-byte one kept 0x10000",
    "C10-C": "load_mem_file_config: the name as given (cwd-relative) is tried before the config directory",
    "C10-D": "uncrustify_end: resets of cpd.in_preproc / cpd.preproc_ncnl_count dropped",
    "C11-C": "language_flags_from_filename: function-static cache keyed by lower-cased extension",
    "C11-D": "restoreValues cleared in space_text() instead of restore_options_for_QT()",
    "C12-C": "bout_content_matches: report_status folded into the byte comparison",
    "C12-D": "cpd.bout became vector<char> (signed comparison with the raw bytes)",
    "C13-C": "embedded NUL: uncrustify_file returns instead of exit (empty temp file installed)",
    "C13-D": "MD5::Update: `>= 64` became `> 64`",
    "C14-C": "backup_copy_file: mtime shortcut before the content hash",
    "C14-D": "make_output_filename squeezes `//` after formatting the name",
    "C15-C": "save_option_file: single-quote delimiter for values containing a double quote, unescaped",
    "C15-D": "print_extensions skips mappings that repeat the built-in table",
    "C16-C": "Option<T>::validate takes T instead of long (value narrowed before the range check)",
    "C16-D": "current_config_file global set by load_option_file, not restored after include",
    "C17-C": "newlines_eat_start_end: the append-a-newline arm guarded by the force-only local",
    "C17-D": "tokenize(): the strip loop stops at a tab when align_keep_tabs is set",
    "C18-C": "align_left_shift: chain restarts only at a directive, not at the end of a #define body",
    "C18-D": "indent_text: the break-after-case-brace hack also fires after plain blocks",
    "C19-C": "output_text: NL_CONT column no longer recomputed from cpd.column (tab inside a literal)",
    "C19-D": "restore_options_for_QT: reverse index loop skips the last table entry",
    "C20-C": "do_blank_lines: nl_max cap skipped for newlines flagged PCF_VAR_DEF",
    "C20-D": "newlines_remove_disallowed: loop now visits a newline that is the list head",
    "C02-E": "output_text(): the overlap re-indent applies only behind a comment",
    "C02-F": "newlines_chunk_pos(): pos_* inside macro bodies via IsSamePreproc()",
    "C03-E": "parse_comment(): hoisted backslash counter no longer reset per line",
    "C03-F": "parse_next(): 'L' dropped from the literal-prefix dispatch (LR\"...\" no longer a raw string)",
    "C04-E": "move_case_break(): the newline checks in front of SwapLines dropped",
    "C04-F": "handle_oc_property_decl(): the catch-all bucket for other words dropped",
    "C06-E": "newline_case(): scan loop no longer stops at the start of the file",
    "C06-F": "indent_text(): the 'Unmatched' exit can leave without a diagnostic",
    "C07-E": "shared marker_is_regex() helper compares every marker with the OFF text",
    "C07-F": "pos_*=trail backs up with GetPrevNcNnl() into a disabled region",
    "C08-E": "add_char() keeps a bare CR inside string literals",
    "C08-F": "parse_cr_string() counts CRLF inside raw strings as LF",
    "C09-E": "write_utf8() re-implemented with its own bit arithmetic",
    "C09-F": "cmt_trim_whitespace(): blank test factored into is_blank(char)",
    "C10-E": "side effect folded into a LOG_FMT argument",
    "C11-E": "line-ending choice kept when the text has no line ending",
    "C10-F": "file_content_matches() reads in lockstep and never compares the last partial block",
    "C11-F": "'skip the file' path leaves the previous file un-cleaned under --if-changed",
    "C12-E": "write_byte(): one sink per byte (else-if)",
    "C12-F": "uncrustify_end(): early return when nothing was tokenized",
    "C13-E": "backup deferred until the file is known to change",
    "C13-F": "stored md5 compared only over the bytes that were read",
    "C14-E": "md5 file not rewritten when no new backup was made",
    "C14-F": "MD5::Final padding boundary `count <= 8`",
    "C15-E": "print_custom_keywords() writes one line per directive",
    "C15-F": "split_args() looks for the closing quote first, then unescapes",
    "C16-E": "Option<token_pos_e>::read accepts `a|b`: fails after a flag was stored",
    "C16-F": "nl_max consistency check moved behind the 'config file required' check",
    "C17-E": "nl_max_blank_in_func scan starts from GetBraceLevel(), matches with GetLevel()",
    "C17-F": "nl_after_namespace uses newline_end_newline() without the end-of-file guard",
    "C18-E": "return/throw indent frame not popped inside a lambda in parentheses",
    "C18-F": "try/catch chain closed after the first handler",
    "C19-E": "rule name corrected in the log, value still taken from the sibling option",
    "C19-F": "comment-start safety check factored out, LANG_D guard lost",
    "C20-E": "newlines_cleanup_dup() refuses to fold a directive's newline",
    "C20-F": "newline_add_after() no longer looks past virtual braces",
}
FIRST = {  # result of the first run of each round, before any rule was changed in response to that round
    "C03-D", "C07-C", "C08-C", "C09-C", "C10-D", "C11-C", "C11-D", "C12-C", "C12-D", "C14-C", "C20-C",
    "C02-E", "C06-E", "C06-F", "C08-E", "C10-E", "C11-E", "C11-F", "C13-E", "C14-E", "C16-F", "C19-E",
    "C06-B", "C07-A", "C09-A", "C09-B", "C10-B", "C11-A", "C11-B", "C12-A", "C12-B", "C14-A", "C16-A", "C19-A", "C20-A",
}
AFTER = {  # rule added / tightened after the miss (DESIGN.md section 4)
    "C02-A": "C02.fusion-table (new)", "C02-B": "C02.newline-crossing (new)", "C03-B": "C03.newline-crossing (new)",
    "C04-A": "C04.remove-precondition: else-test-on-real-token (new obligation)", "C07-B": "C07.newline-guards (new)",
    "C08-A": "C08.census-monotone (new); was caught by C11.reset only", "C10-A": "C11.reset run as an obligation of C10; was caught by C11 only",
    "C13-A": "C13.write-error-checked: ferror must feed the flag (tightened)", "C13-B": "C13.inplace-name (new)",
    "C15-A": "C15.line-verbatim (new)", "C15-B": "C15.ext-map-domain (new)",
    "C16-A": "C16.store-after-validate: stores-what-was-validated (new obligation); the first-run report by C16.fail-warns was a false alarm on an equivalent shape and was corrected",
    "C16-B": "C16.no-throw: non-empty check required (tightened: the rule was unsound for \"\")",
    "C17-A": "C17.strip: preproc-body/no-blank-after-backslash (new obligation)", "C17-B": "C17.tabs-off: definitions after the join (tightened)",
    "C20-B": "C20.eat-blanks: veto priority path check (new obligation)",
    # second round
    "C04-D": "a cross-file leak, C11's subject: reported by C11.reset and C10; the first-run report by C04.sort-whole-lines was a false alarm on `==` for `strcmp() == 0` and was corrected",
    "C06-C": "not decided (the guard relates a counter to the size of a vector); the first-run report by C06.exit-discipline was an artefact of ordinal instance keys - the five keyed exceptions were replaced by condition-aware path pruning",
    "C06-D": "C06.exit-discipline: diagnostic-is-flushed (new obligation)",
    "C07-D": "C07/C08.region-uncounted (new)", "C09-D": "C09.utf8-tables: `<=` thresholds understood (was analysis-broken)",
    "C13-C": "C13.output-or-exit (new)", "C13-D": "C13/C14.md5-block-invariant (new)", "C14-D": "C13/C14.inplace-name: nothing-after-final-snprintf (tightened), rule shared with C14",
    "C15-C": "the writer's quoting idiom changed: C15.string-escape-agreement loses its anchor and reports analysis-broken (exit 2) - not a pass, not a verdict",
    "C15-D": "C15.ext-map-domain: no-entry-skipped (new obligation)", "C16-C": "C16.store-after-validate: validated-in-full-width (new obligation)",
    "C16-D": "C16.bounded-recursion: include/restores/<global> (new obligation)",
    "C17-C": "C17/C20.eof-families: <option>=add/force/remove reachability (new obligation); the first-run report came from lost attribution through locals, now resolved",
    "C17-D": "C17.strip: strip-unconditional (tightened: the filter let conditions on the chunk text through)",
    "C19-D": "C11/C19.qt-restore: save-and-restore-walk-the-same-table (new obligation, rule shared with C19)",
    "C02-F": "C02.move-across-break (new rule)",
    "C03-E": "C03.continuation-count-per-line (new rule)",
    "C04-E": "C04.swap-first-on-line (new rule)",
    "C04-F": "C04.oc-sort-keeps-words (new rule)",
    "C08-F": "C08.census-classes (new rule)",
    "C09-E": "C09.one-encoder (new rule)",
    "C09-F": "C09/C02.no-codepoint-narrowing (new rule on new extractor facts; led to the punctuator-lookup defect, fixed)",
    "C10-F": "C10.compare-every-byte-read (new rule)",
    "C12-E": "C12.same-bytes: sinks-independent (new obligation)",
    "C12-F": "C12.capture-per-file (the C11 reset discipline for cpd.bout as an obligation of C12)",
    "C13-F": "C13.skip-guard (C14's rule shared with C13)",
    "C16-E": "C16.no-failure-after-store (new rule)",
    "C17-E": "C17/C20.scan-level-agreement (new rule)",
    "C19-F": "C19.force-only-when-fusing (converse of C02.fusion-table, helpers evaluated under the pair bindings)",
    "C20-E": "C20.runs-not-chunks: merges-every-pair (new obligation)",
    "C20-F": "C20.runs-not-chunks: looks-past-virtual-braces (new obligation)",
}
NOT_DECIDED = {
    "C03-A": "a lexical constant of the language (delimiter length 16)",
    "C04-B": "a level number",
    "C08-B": "index arithmetic inside one loop",
    "C14-B": "MD5 block arithmetic",
    "C18-A": "which token kinds own a brace is a table of the language, not a shape of the code",
    "C18-B": "frame-stack semantics of the preprocessor",
    "C19-B": "original-column arithmetic",
    "C02-C": "index arithmetic in the strip (C17.strip loses its anchor on this shape: analysis-broken)",
    "C02-D": "which navigation scope a caller may combine with newline_del_between()'s brace hoisting",
    "C03-C": "which chunk kinds lie between two tokens found by comment-skipping navigation",
    "C04-C": "a level argument",
    "C08-D": "character look-ahead arithmetic",
    "C10-C": "the order of two file-name lookups",
    "C18-C": "alignment chain semantics", "C18-D": "a parent-type list of the language",
    "C19-C": "column arithmetic",
    "C20-D": "which chunk a loop visits first",
    "C03-F": "which prefix letters start a literal is a table of the language",
    "C07-E": "which constant a helper compares with (both are valid marker texts)",
    "C07-F": "which chunk a comment-skipping navigation can land on",
    "C14-F": "MD5 padding arithmetic",
    "C15-E": "the writer was restructured so that its formats are no longer literals: the rule loses its anchor (analysis-broken), which is the honest answer",
    "C15-F": "quote/escape scanning arithmetic",
    "C17-F": "same mechanism as the recorded finding C20.cap-after-inserts[after-last-cap/newlines_cleanup_braces] (a pass re-run after the last newlines_eat_start_end()); whether a given call can append behind the last chunk depends on option values",
    "C18-E": "frame-stack semantics (push and pop conditions of one frame kind)",
    "C18-F": "brace-cleanup stage machine",
}


def main():
    res = {r["seed"]: r for r in json.load(open(os.path.join(S, "results.json")))}
    out = ["# Independently written breaking changes and which check reports them", "",
           "Each directory `<ID>-<X>/` holds `patch.diff` (against /repo HEAD as recorded in meta.json), `demo.sh <uncrustify>` (exit 0 = property",
           "holds for the scenario), `notes.md` (the author's cover story, mechanism, what it needs to manifest) and `meta.json` (property, how it was",
           "confirmed). Written by sub-agents that saw only the property record and a scratch worktree; confirmed by re-running the demo against",
           "the unchanged and the changed binary and the full test suite on the changed tree. `seeded/run --all-checks` regenerates `results.json`.", "",
           "| seed | change | first run | now reported by | note |", "|---|---|---|---|---|"]
    n_own = 0
    for sid in sorted(res):
        r = res[sid]
        inst = "; ".join("%s[%s]" % (v["rule"], (v["instance"] or "")[:50]) for v in r.get("own_violations", [])[:2])
        meta = json.load(open(os.path.join(S, sid, "meta.json")))
        note = AFTER.get(sid, "")
        if sid in NOT_DECIDED:
            note = "not decided: " + NOT_DECIDED[sid]
        if meta.get("status"):
            note = (note + "; " if note else "") + meta["status"]
        if r["status"] == "detected":
            n_own += 1
        elif r["status"] not in ("missed",):
            note = ("[%s] " % r["status"]) + note
        also = (" (also: %s)" % ",".join(r["also_fired"])) if r.get("also_fired") else ""
        out.append("| %s | %s | %s | %s%s | %s |" % (sid, WHAT.get(sid, ""), "reported" if sid in FIRST else "missed",
                                                    inst if r["status"] == "detected" else "—", also, note))
    out += ["", "%d of %d reported by the property's own check." % (n_own, len(res)), ""]
    open(os.path.join(S, "README.md"), "w").write("\n".join(out))
    print("seeded/README.md: %d seeds, %d reported by own check" % (len(res), n_own))


main()
