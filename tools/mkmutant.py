#!/usr/bin/env python3
"""mkmutant.py PID NAME 'expect substring' FILE <<< 'OLD\n====\nNEW'   (exact text replace, first occurrence) -> selftest/mutants/PID/NAME.patch
   several edits: separate with a line '####' followed by 'FILE: path' line."""
import os, re, subprocess, sys, tempfile, shutil
pid, name, expect = sys.argv[1:4]
spec = sys.stdin.read()
edits = []
for part in spec.split("\n####\n"):
    m = re.match(r"FILE: (\S+)\n", part)
    f = m.group(1); body = part[m.end():]
    old, new = body.split("\n====\n")
    edits.append((f, old.rstrip("\n") if old.endswith("\n\n") else old, new))
W = tempfile.mkdtemp()
try:
    for side in "ab":
        for f, _, _ in edits:
            os.makedirs(os.path.join(W, side, os.path.dirname(f)), exist_ok=True)
            shutil.copy(os.path.join("/repo", f), os.path.join(W, side, f))
    for f, old, new in edits:
        p = os.path.join(W, "b", f); s = open(p).read()
        old = old.rstrip("\n"); new = new.rstrip("\n")
        if s.count(old) < 1:
            sys.exit("mkmutant: OLD text not found in %s:\n%s" % (f, old))
        open(p, "w").write(s.replace(old, new, 1))
    d = subprocess.run(["diff", "-ru", "a", "b"], cwd=W, stdout=subprocess.PIPE, text=True).stdout
    d = re.sub(r"^(---|\+\+\+) ([ab])/(\S+).*$", r"\1 \2/\3", d, flags=re.M)
    out = "/verif/selftest/%s/%s/%s.patch" % ("benign" if os.environ.get("BENIGN") else "mutants", pid, name)
    os.makedirs(os.path.dirname(out), exist_ok=True)
    open(out, "w").write("".join("# expect: %s\n" % e for e in expect.split("||") if e) + d)
    print("wrote", out, len(d.splitlines()), "lines")
finally:
    shutil.rmtree(W)
