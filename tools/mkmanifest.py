#!/usr/bin/env python3
"""Regenerate MANIFEST.json from the claim table below (keeps it schema-valid and consistent)."""
import json
import os
import sys

VERIF = os.path.dirname(os.path.dirname(os.path.abspath(__file__)))

NOTE = ("Trusted base: clang 14 front end + CFG builder on the flags of the compile database generated from the current "
        "tree (-DNDEBUG as shipped); the rule implementations under /verif/uv; the exception table rules/exceptions.json "
        "(one named symbol + reason each). Decides the structural clauses named in DESIGN.md section 4 for every path / "
        "call site / table row of the parsed program; the behavioural remainder named there is not decided.")

CLAIMS = {
    # pid: (technique, level text, design_ref)
    "C02": ("must-pass-through on the tokenizer loop and parse_next (every parsed chunk added, failure exits, discarded-character census); single-emit/every-emit path analysis of output_text's chunk loop; fusion guard (who-may-call + exact guards of the PCF_FORCE_SPACE setters); dominance of the column advance; guard analysis of the newline makers; shared effect census with liveness under the default configuration; constant folding of the fusion guard over the extracted punctuator table (9 languages x all punctuator pairs, comment openers in the lexical alphabet); guard census of every line-break deletion/swap (SafeToDeleteNl)",
            "The tokenizer is shown to add every parsed non-whitespace chunk and to drop input characters only in the whitespace "
            "consumers; output_text to write each chunk's text exactly once per forward-only iteration; do_space to be reachable only "
            "through the fusion guard, whose two setters sit under exactly the word/word and punctuator-relex tests; chunks never to be "
            "written left of the output column; newlines made inside directives to carry a backslash; and no chunk-editing site to be "
            "live with the code-modifying option families at their defaults. These are for-all-inputs statements about loss, "
            "duplication, reordering and fusion. For each of the 766 punctuator pairs (per language) whose concatenation lexes to a longer first token - comment openers included - a forced blank is shown reachable in space_text; every deletion or swap of a line break is shown guarded by SafeToDeleteNl (not after a // comment, not across a directive end) or is one of four reviewed sites; space_needed(), which writes the decision into the merged text of a conversion operator's type, cannot return 0 for two words. The column arithmetic is not decided.", "DESIGN.md section 4 C02"),
    "C03": ("table agreement between the tokenizer's literal types and output_text's is_literal test, exhaustiveness of the comment-type dispatch, shared effect census, who-may-call for the character writers, guard census of every line-break deletion/swap (SafeToDeleteNl)",
            "Every type a string parser can assign is written with is_literal=true; every CT_COMMENT* value any SetType can produce has "
            "a comment-writer arm; with the comment/string options at default no text-rewriting site is reachable; all characters "
            "pass add_char/add_text; no line break is deleted or swapped with a token unless SafeToDeleteNl holds (so no token can be pulled into a // comment); in every call-free loop each branch reads something the body changes (the raw-string delimiter comparison never advanced on the pinned tree). The re-flow and re-indent arithmetic inside the comment writers is not decided.", "DESIGN.md section 4 C03"),
    "C04": ("effect analysis: census of every token-visible effect site (chunk text mutation, chunk creation, deletion, move) + inter-procedural liveness under the abstract default configuration (constant folding of dominating option tests along every call chain, latch flags included); same-block pairing of brace edits; guard analysis of brace removal; who-may-move in the sorters",
            "All 135 sites that can change, create, delete or move a chunk are enumerated; with the mod_/cmt_ option families at their "
            "defaults 105 are shown unreachable from uncrustify_file on every call chain, the rest act on newline/blank chunks by a "
            "dominating type test or are six reviewed exceptions - that is the property's last sentence for all inputs. Brace "
            "conversions, insertions and removals are shown to come in pairs under one path condition; braces are removed only after "
            "the body scan found the matching close brace with one statement and under a remove setting; sorting permutes whole lines "
            "only; the token tested for `else` after a removable block is shown to be a real token (all virtual brace closes skipped by a loop) and an `else` there blocks the removal when the block contains an `if`; both body scanners count a nested block as a statement; a whole line is deleted as a duplicate only under a comparison that walks both lines to their ends. The statement counting inside can_remove_braces/examine_brace (the arithmetic) is not decided.", "DESIGN.md section 4 C04"),
    "C06": ("three-valued abstract interpretation of every natural loop with a chunk cursor under cursor == NullChunk (navigation closure and predicate truth table derived from chunk.h/chunk.cpp bodies); guard analysis of every m_next/m_prev store; census of throwing conversions/regex constructions vs try blocks (AST ancestry); the same three-valued interpretation of every input-consuming tokenizer loop under the end-of-input state (more()=false, peek()/get()=0, helper functions evaluated on constants); interval analysis (literals, sizeof, dominating comparisons, BoundedOption ranges, loop-exit facts, unsigned-wrap obligations) of every write into a fixed-size character buffer; length-guard analysis of constant-index text accessors; must-pass-through of a diagnostic before every non-zero exit; reachability of error exits from output_text",
            "All 376 loops that advance a Chunk* cursor through the navigation family are shown escapable when the cursor is the null "
            "chunk (the hang class of truncated/unbalanced input: ten such loops were found and fixed); the null chunk's links are "
            "shown immutable, which is the lemma the walk analysis rests on; every regex construction from run-time text is inside "
            "a try block and every std::sto* behind a format check; each of the ~120 non-zero exits has a documented status and a "
            "diagnostic on every path to it; no error exit is reachable once output has started except two recorded findings; all 48 tokenizer loops that read through TokenContext are shown escapable at the end of the input (one hang found and fixed); all 42 writes into fixed-size character buffers reachable from main are shown in bounds by interval facts (three overflows found and fixed, seven reviewed sites); every constant-index .at() on a chunk text has a dominating length test (one abort found and fixed); Chunk::Delete refuses the static null chunk; a logged diagnostic that is the last message before an exit ends in a newline or is flushed. "
            "Heap objects, iterator validity, integer overflow elsewhere and wall-time bounds are not decided - they need a whole-program value analysis that is out "
            "of reach for this code base with the tools present.", "DESIGN.md section 4 C06"),
    "C07": ("dominance of the disabled-region test over every parser call in parse_next; data-flow of every character read by parse_ignored into the chunk text; guard of the strip loop; exact shape of the raw output branch; effect census restricted to CT_IGNORED; must-reset of cpd.unc_off; sibling agreement of the newline editors on the CT_IGNORED test",
            "While processing is off parse_ignored runs before every other parser and consumes no input before the test; it appends "
            "every character up to the line end and types the chunk CT_IGNORED; such chunks are not stripped, are written by the raw "
            "branch of add_text only, are named by no editing site, and the newline after them is left alone; newline_iarf_pair and newline_add_between refuse every edit whose second chunk is a region line; nothing reachable from parse_ignored touches the line-ending census; the off state is "
            "cleared per file. Holds for arbitrary region content. Chunks that mod_ options insert next to a region line (a replayed defect of the pinned tree, DESIGN.md section 6) and the blank-line structure around a region are not decided.", "DESIGN.md section 4 C07"),
    "C08": ("who-may-call for the character writers + guard analysis of add_char's CR/LF arms; extraction of the (option, census) -> terminator table at the tail of tokenize(); backward/forward must-pass-through pairing of every line-break event of the tokenizer with a census increment; census of every mention of cpd.le_counts (increments, the choice, the single reset); CR/LF sibling-comparison check (thorough)",
            "Every output character is shown to pass add_char, where LF becomes exactly cpd.newline and CR is dropped; cpd.newline "
            "is assigned only by an exhaustive three-row table at the end of tokenize(); each of the tokenizer's line-break events "
            "outside disabled regions is paired with one census increment on every path (4 string-parser sites are recorded known "
            "findings with replay inputs); the census only grows between the first character and the choice - its only reset is in uncrustify_end, although tokenize() is re-entered for inserted comment templates - and nothing reachable from parse_ignored() counts; the thorough tier checks that every function comparing input with LF also handles CR. "
            "This is what makes terminator choice and normalisation independent of where a line break sits. The two-run "
            "commutation equations are not decided.", "DESIGN.md section 4 C08"),
    "C20": ("must-pass-through of the nl_max test on every newline path of do_blank_lines; effect summaries (may-set-newline-count) over the call graph against the position of do_blank_lines in the newline loop; option provenance to count sinks vs the nl_max guard set; option-family partition of newlines_eat_start_end; guard/receiver analysis of the eat_blanks sites; forced-fact path exploration of can_increase_nl (veto priority); neighbour-navigation check of newlines_cleanup_dup",
            "Every newline chunk outside disabled regions passes the nl_max cap, which lowers the count to the option value; inside the "
            "newline loop nothing that can raise a count runs after the cap except three calls shown to only lower or take the "
            "maximum; all count-raising options are compared with nl_max before any source is read (including --set overrides); "
            "start/end-of-file handling reads only its own option family on the matching end of the list; both eat_blanks options "
            "reduce the brace-adjacent newline to one and veto increases with priority over every rule except the nl_inside_* ones; nothing that can raise a count may run after the last cap - five recorded findings: newline chunks separated by a virtual brace add up, and the code_width retry block / split_line / sort_imports raise counts after the last do_blank_lines(). Holds for all inputs; the arithmetic between the ~40 "
            "blank-line options and passes after the newline loop are not decided.", "DESIGN.md section 4 C20"),
    "C09": ("closed-form table agreement: numeric extraction of the UTF-8 encoder/decoder branch tables and of the UTF-16 surrogate arithmetic from the expression trees, exhaustiveness of the encoding switches, who-may-write for cpd.enc/cpd.bom and who-may-call for the byte writers",
            "For all six UTF-8 lengths the encoder's bit fields are shown disjoint and covering, its thresholds equal 2^(payload "
            "bits), and the decoder's lead masks, payload masks, continuation counts and per-length minimum (overlong rejection) "
            "agree with it; UTF-16 surrogate constants and byte order agree between get_word/decode_utf16 and write_utf16; "
            "write_char/write_bom cover every char_encoding_e value with the decoder's endianness; cpd.enc/cpd.bom change only in "
            "uncrustify_file by the documented policy table. These equalities hold for every code point, which is the exhaustive "
            "1.1M-scalar quantifier in closed form. The two-run transcoding equation itself is not decided.", "DESIGN.md section 4 C09"),
    "C10": ("who-may-call over the call graph reachable from main; purity (effect) summaries propagated bottom-up and applied to every node that is control-dependent on log_sev_on() and to the observer entry points; banned-callee and pointer-order queries with a positive example; the global-state reset analysis of C11 (delivery through a file list = independence of files)",
            "All delivery modes are shown to reach output_text only through uncrustify_file with the loaded file_mem; each of the ~16000 "
            "nodes that execute only when a log severity is enabled (all LOG_FMT arguments included) and every logging/dump/parsed-"
            "output function is shown free of writes to formatter state, so observer options cannot change the bytes; environment, "
            "clock, locale and random sources are read only at four reviewed sites; no pointer ordering or pointer-keyed iteration "
            "exists; delivery through -F or several positional files equals single-file delivery because no per-file global survives (rule C11.reset, shared). This covers every input and option subset at once. Uninitialised reads are not decided.", "DESIGN.md section 4 C10"),
    "C11": ("inter-procedural global-state analysis over the resolved call graph: per location, upward-exposed loads from do_source_file's entry (must-initialise summaries) and may-return-dirty summaries specialised on bool literals at call sites; must-pass-through for the per-file cleanup",
            "For each of the ~48 global locations that per-file code both writes and reads (cp_data_t fields, namespace/class/function "
            "statics, the option values) the check shows that no read can see a value left by a previous file, or that every return of "
            "do_source_file leaves it at its initial zero/empty value; 22 locations are reviewed exceptions (observer state, "
            "count-indexed arrays, scratch buffers), each a named symbol with its reason in rules/exceptions.json. Every path through "
            "do_source_file reaches uncrustify_end, which empties the chunk list and undoes a pending Qt option override; the override is saved only when none is pending. This is a "
            "statement over all file sequences, which pairwise sampling cannot give. Heap state reachable only through pointers and "
            "stores through reference aliases are outside the analysis.", "DESIGN.md section 4 C11"),
    "C12": ("guard analysis (dominating-edge facts incl. latch flags and a propositional step over main's option rejection) on do_source_file/main; who-may-write for the counter and both sinks; structural check of bout_content_matches",
            "Every file-creating event of do_source_file and main's stdout redirection is shown control-dependent on !do_check; the "
            "failure counter is incremented exactly under do_check && !bout_content_matches on every returning path after output_text "
            "and alone decides main's status; bout_content_matches is false exactly on a size or byte difference over the whole "
            "buffer and prints PASS/FAIL under the same conditions; write_byte is the only feeder of both sinks with the same value; "
            "the --if-changed early return precedes every file-creating event. Holds for all inputs/configurations; determinism of "
            "formatting itself is C10's subject.", "DESIGN.md section 4 C12"),
    "C13": ("must-pass-through / dominance on do_source_file's CFG (backup < open(tmp) < write < close < rename, rename guarded by clean close) + who-may-call for rename/unlink/write-mode opens; reaching definitions of the write-error flag (must be fed by ferror); shape of make_output_filename (name identity for in-place detection)",
            "For every path of do_source_file(): only the suffixed temp name is opened for writing, a backup (unless no_backup) and its "
            "failure exit precede it, fclose precedes rename with no write in between, the rename is control-dependent on a flag fed by ferror(pfout) (the sticky indicator - the writers ignore their results) and by fclose, nothing is written after ferror was read, the output name for --replace reproduces the input name verbatim so that the textual in-place test fires, uncrustify_file returns only after output_text (failures exit), MD5::Update leaves fewer than 64 bytes buffered (the md5 shortcut decides about the backup), and no other function renames/unlinks or opens files for writing. This ordering is what makes every "
            "crash or fault point leave either the complete original or the complete new file; it holds for all inputs and fault "
            "points, which no fault-injection sample can enumerate. Kernel atomicity of rename(2) is assumed.", "DESIGN.md section 4 C13"),
    "C14": ("must-pass-through on do_source_file (md5 only after rename/unlink, with a checked flag-latch lemma) + guard analysis of backup_copy_file + writer/reader format table agreement",
            "Every path to backup_create_md5_file passes the install of the formatted file; after an install with a backup the md5 is "
            "always recorded; backup_copy_file writes iff the recorded md5 differs from the md5 of exactly the bytes read and nothing "
            "else can skip it; writer and reader agree on 32 lower-case hex digits of dig[0..15]; MD5::Update keeps the block-buffer invariant (< 64 bytes buffered) that makes the digest independent of chunking; the in-place detection the protocol hangs on is shared with C13. That is the protocol of backup.h "
            "decided for all histories; the MD5 round function is not examined.", "DESIGN.md section 4 C14"),
    "C15": ("writer/reader table agreement extracted from the parsed program (directive words, enum string tables of the generated option_enum.cpp, quote/escape sets), must-pass-through in save_option_file, registry census over the 857 option objects, who-may-write for Option::m_val, provenance of the values stored in the extension map, mutation census of the config line buffer",
            "Every directive the writers print is one the loader dispatches on; for all four enumerated option types "
            "convert_string(to_string(v)) = v and every advertised spelling is accepted; string values are written with exactly the "
            "reader's special characters escaped; the writer skips an option only under `minimal`; all 857 option objects are "
            "registered once under their own lower-case identifier; option values are stored only by the reader functions; file_ext mappings store the canonical table name the writer selects by and the writer skips no entry; each config line reaches the quote-aware splitter unmodified. These "
            "are closed-form facts over the whole registry and all spellings. Numeric printf/strtol round-tripping and include "
            "resolution are not decided.", "DESIGN.md section 4 C15"),
    "C16": ("guard analysis of every m_val store in the reader instantiations, must-pass-through (warning before every `return false`, effect-or-warning on every path of process_option_line), throwing-conversion census with dominating-check idioms, option-provenance to newline-count sinks vs the nl_max guard set, ordering in main, call-graph cycle analysis with a depth-guard obligation",
            "All 8 stores to an option value are shown to sit behind validate()/type tests and to store the very expression that was validated, passed to validate() in its full width; all 56 `return false` exits of the readers "
            "and of every BoundedOption::validate instantiation are preceded by a diagnostic; no configuration line can be consumed "
            "silently; every std::stoi-family call has a dominating non-empty/digits/length check; all 139 unsigned options are bounded; every "
            "unsigned option that can raise a newline count is compared with nl_max, and that comparison runs after the last option "
            "store and before any source is read. The include recursion load_option_file <-> process_option_line is shown depth-guarded (a self-including file overflowed the stack on the pinned tree; fixed), restores what it overwrites for the nested file, and value diagnostics name the file being read (fixed). Holds for every configuration text; the wording of diagnostics is not decided.", "DESIGN.md section 4 C16"),
    "C17": ("who-may-call for the character writers; must-pass-through of the trailing-blank strip in tokenize(); constant folding of the tab decisions of output_text/add_char under the abstract configuration indent_with_tabs=0 (with path-sensitive refinement of reaching definitions); guard analysis of the blank buffer; option-family partition of the end-of-file policy",
            "Every chunk outside disabled regions loses its trailing blanks and tabs before it enters the chunk list, on every path; all "
            "output characters pass add_char, which buffers blanks and flushes them only before a non-blank; under indent_with_tabs=0 "
            "(pp_indent_with_tabs -1/0) every definition of allow_tabs that reaches the column advance of a line-start token folds to false and a tab after a blank is expanded - "
            "for all inputs and all other option values; the reader of unknown directive bodies never appends a blank that follows a backslash (the strip keeps one such blank for // comments); no option or cpd state conditions the strip; the end-of-file newline policy reads only its own option family. Trailing "
            "blanks produced by column arithmetic inside comment continuation lines and alignment are not decided.", "DESIGN.md section 4 C17"),
    "C18": ("dominance / ordering of the pass pipeline in uncrustify_file and of structure-changing calls relative to indent_text (effect summaries over the call graph); "
            "taint census: every read of an original-position accessor reachable from indent_text, with inter-procedural liveness under the all-defaults abstract configuration (constant folding of dominating option tests along every call chain)",
            "Two clauses of the property are decided. (1) pipeline order: levels and spacing are computed before "
            "indent_text, every structure-changing call of the final loop is followed by the change-counter test that re-runs "
            "indent_text, and nothing that changes structure runs between the last indent_text and output_text. (2) the property's last "
            "sentence for the default configuration: of the ~160 reads of a chunk's original column/gap in the indent pass, all are "
            "diagnostics, unreachable with every option at its default (each sits behind an indent_ignore_* / preserve / == -1 option), "
            "positions of comments, or seven reviewed same-line/diagnostic sites with checked preconditions - so the first token of a "
            "code line cannot inherit its original column unless an option asks for it. The column arithmetic of indent_text (equal "
            "columns per block, indent_columns per level) is NOT decided; GetColumn() of a token that has not been re-indented yet is "
            "not tracked as a carrier of the original column.", "DESIGN.md section 4 C18"),
    "C19": ("CFG dataflow (last-logged-rule x option provenance) over all do_space returns + who-may-call + switch-arm effect check",
            "Every return of do_space() (359) is checked: the option named by the last log_rule on each path is the option whose "
            "value (or a guard on it) decides the return; do_space is reachable only through ensure_force_space; the appliers' "
            "FORCE/REMOVE arms are checked to add exactly min_sp / nothing (two words excepted, as the property says) and never consult original columns; the Qt SIGNAL/SLOT override of eleven sp_ options is saved once and restored over the same table (rule shared with C11). This is a "
            "for-all-paths statement about the decision function that the 2035 sampled tests cannot give; it does not decide "
            "the later column arithmetic of alignment/indent passes.", "DESIGN.md section 4 C19"),
}

NA = {
    "C01": "compile-equivalence is an equation between two compiler runs over all programs x configurations; every structural clause in its anchors is decided under C02/C03/C04; nothing static remains that is specific to C01 (DESIGN.md section 5)",
    "C05": "idempotence is an equation between the numeric results (columns, newline counts) of two runs; no shape of the convergence loops is a sound necessary condition on this tree (DESIGN.md section 5)",
}


# round-3 additions: (technique suffix, claim suffix)
EXTRA = {
    "C02": ("dominating-fact census of every chunk move across a line break; census of every integral conversion of a code point to an 8-bit type (AST facts incl. implicit conversions)",
            "No chunk is moved over a line break into or out of a directive line; no code point read by the tokenizer or held in chunk text is cut to its low byte."),
    "C03": ("path analysis of the per-line backslash counter of parse_comment; not-a-comment proof (type facts, comment-skipping navigation, caller arguments) for every Chunk::Delete site",
            "Every Chunk::Delete site deletes a chunk that is provably not a comment (one recorded by-design finding: the comment trailing a removed duplicate #include)."),
    "C04": ("first-on-line facts for every SwapLines; path search with an edge filter in the @property attribute sorter",
            "The Objective-C property sorter puts every attribute word into a bucket before it deletes what it did not move."),
    "C06": ("unsigned-wrap obligations (interval analysis) on every ordered subtraction of the code_width pass",
            "In the code_width pass, whose change counter drives an otherwise unbounded retry loop, no ordered unsigned subtraction can wrap (a replayed hang is repaired)."),
    "C08": ("class agreement of every census increment with the characters tested", "Each census increment counts the class of the break that was seen."),
    "C09": ("must-call of the one encoder in write_utf8; census of every conversion of a code point to an 8-bit type",
            "The output path uses the encoder whose tables are shown to agree with the decoder; no code point is narrowed to a byte-sized type."),
    "C10": ("path analysis of file_content_matches (every block read is compared or the file is at its end)",
            "The in-place comparison that decides whether the old file is kept cannot skip a block it has read."),
    "C12": ("independence of the two sinks of write_byte; the global-state reset analysis of C11 restricted to the capture buffer",
            "The buffer --check/--if-changed compare is filled whether or not a file sink exists and holds this file's bytes only."),
    "C13": ("guard analysis of backup_copy_file (shared with C14)", "The backup is skipped only when the md5 of the bytes read equals the recorded one over all 32 digits."),
    "C16": ("reachability of failure returns from stores in the option readers", "A reader that has stored a value cannot report failure afterwards."),
    "C17": ("accessor agreement of level comparisons in the newline passes", "Scans in the newline passes compare like with like (level / brace level / preprocessor level)."),
    "C19": ("constant folding of space_text's safety block over the punctuator table in the converse direction, helpers evaluated under the pair bindings",
            "No pair of punctuators that stays two tokens when written without a blank can have a configured remove overridden."),
    "C20": ("guard analysis of the merge in newlines_cleanup_dup; navigation check of the existing-newline tests; accessor agreement of level comparisons in the newline passes",
            "Every adjacent pair of newline chunks is merged; the newline adders look past virtual braces for an existing newline."),
}
# round-4 additions
EXTRA4 = {
    "C02": ("same-directive / no-PREPROC-scope-navigation facts for the brace hoists of the newline passes and for the 47 pair call sites",
            "An open brace is never hoisted or pushed across a preprocessor line."),
    "C04": ("the move-across-break obligations of C02; must-reset of the pending entry at every newline in sort_imports",
            "Under default mod options the newline passes do not reorder tokens across directive lines; a sort entry is one physical line."),
    "C06": ("null-chunk divergence with dominating non-null facts for the there-and-back idiom; unsigned-wrap obligations on every container .at() index; bounds of every tag pointer of the generated punctuator table against the extracted symbol tables; index bounds of every store into a fixed non-character array; who-may-call for the byte writers",
            "A walk back from an untested forward navigation cannot hang; no .at() index can wrap; the punctuator table points only inside its symbol arrays; token stacks are bounded; nothing reaches the output before output_text(). (Six crashes / hangs of the pinned tree found this way or replayed from reports were repaired.)"),
    "C07": ("guard analysis of Chunk::SafeToDeleteNl for both neighbours of a region line",
            "No line break next to a line of a disabled region is deleted."),
    "C08": ("who-may-ask for add_text's raw path", "Only CT_IGNORED chunks are written raw; every other text goes through add_char's CR/LF arms."),
    "C09": ("census of libc calls that narrow their int argument (strchr family) with a code-point argument; census of byte-string entries of UncText fed from UTF-8 log text",
            "No code point is handed to strchr() outside 1..127; UTF-8 bytes of a chunk are never stored back as code points."),
    "C10": ("exit-edge analysis of the stdin read loop and shape of the single fread of load_mem_file",
            "A short read or a read error is never taken for the end of the input."),
    "C11": ("checked precondition (dominance of the per-file assignment over every decrement) for the excepted pass budget",
            "The pass budget is set per file before it is spent."),
    "C12": ("provenance of the selectors of every file-creating event below uncrustify_file up the call chain to main's rejected arguments",
            "--check is rejected together with every argument that makes uncrustify_file create a file."),
    "C13": ("result-test / length-test analysis of every snprintf that builds a file name; the input-read-complete rule of C10",
            "No backup, md5 or output file name is used truncated; a prefix of the source is never accepted as the source."),
    "C14": ("the names-not-truncated rule; failing-edge analysis of the md5 file's fopen/fclose",
            "The backup and md5 names cannot collide; a failure to write the md5 file ends the run with a diagnostic."),
    "C15": ("the number-whole-and-fits rule of C16", "A negated reference to another option loads as the negated value."),
    "C16": ("guard facts of the strtol store (digits read, whole value, fits the type), type of every negation, guard of every strchr on a possibly empty value",
            "An empty or over-long number is diagnosed and stores nothing."),
    "C17": ("three-valued exploration of every tokenizer loop under `the character read is a line break` (CharTable and helper predicates folded); constant folding of the comment tab policy; who-may-set the blank-line column",
            "No parser copies a line break into non-literal chunk text without dropping the blanks in front of it; comment indentation uses no tabs under indent_with_tabs=0; blank lines are padded only on request."),
    "C19": ("form census of add_char's column updates against space_text's planner", "The writer counts one column per character, as the spacing planner does."),
    "C20": ("receiver analysis of every blank_line_set on another newline than the one examined", "The eat_blanks veto is asked for every newline whose count is raised."),
}
for _p, (_t, _c) in EXTRA4.items():
    tech, text = EXTRA[_p] if _p in EXTRA else ("", "")
    EXTRA[_p] = ((tech + "; " if tech else "") + _t, (text + " " if text else "") + _c)
for _p, (_t, _c) in EXTRA.items():
    tech, text, ref = CLAIMS[_p]
    CLAIMS[_p] = (tech + "; " + _t, text + " " + _c, ref)


def main():
    props = [json.loads(l)["id"] for l in open(os.path.join(VERIF, "properties.jsonl"))]
    checks = []
    na = []
    for p in props:
        if p in CLAIMS:
            tech, text, ref = CLAIMS[p]
            checks.append({
                "property_id": p,
                "quick_cmd": "./check %s --tier quick" % p,
                "thorough_cmd": "./check %s --tier thorough" % p,
                "evidence_file": "evidence/%s.json" % p,
                "replay_cmd_template": "./check %s --replay {path}" % p,
                "engine": "uvfacts+rules",
                "level_claimed": {"category": "other", "text": text, "design_ref": ref},
                "level_note": NOTE,
                "technique": "static analysis: " + tech,
            })
        else:
            na.append({"property_id": p, "reason": NA.get(p, "check not yet built in this session (planned: DESIGN.md section 4); not claimed until it runs clean")})
    m = {
        "version": 1,
        "setup_cmd": "./setup.sh",
        "hooks": {"guard": "UNCRUSTIFY_VERIF", "enable": "none needed: the analysis reads the unmodified sources of /repo's working tree; there are no hook commits",
                  "baseline_off_cmd": "ctest --test-dir /repo/_build -j8 --timeout 900", "source_commits": [], "add_only": True},
        "engines": [{"name": "uvfacts+rules", "path": "tools/uvfacts.cc, uv/", "serves_properties": sorted(CLAIMS),
                     "kind_free_text": "libTooling fact extractor (clang CFG with resolved callees) + Python rule engine: call graph, who-may-call, must-pass-through, guards (control dependence with polarity), reaching definitions/provenance, table agreement"}],
        "checks": checks,
        "notes": "exit 0 pass / 1 VIOLATION / 2 analysis-broken (anchor vanished or rule below its instance floor). Known findings: known_findings.json. Checker self-test: selftest/run (mutant patches on scratch copies).",
        "not_applicable": na,
    }
    json.dump(m, open(os.path.join(VERIF, "MANIFEST.json"), "w"), indent=1)
    print("MANIFEST: %d checks, %d not applicable" % (len(checks), len(na)))


if __name__ == "__main__":
    main()
