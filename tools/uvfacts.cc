// uvfacts: fact extractor for the uncrustify static verification framework.
//
// One libTooling tool; no rule lives here.  For every function definition whose
// body is spelled under one of the --root directories it emits the clang CFG
// (built with setAllAlwaysAdd, no EH edges) as blocks of flattened expression
// nodes in evaluation order, with resolved callees / declarations / members,
// literal values, enum constants, macro provenance and terminator conditions.
// Globals (with initialiser trees), enums and record layouts are emitted too.
//
// Usage: uvfacts -p <build-dir> --out <file.json> --root <dir> [--root <dir>]
//                --hdrdir <dir> <source.cpp>
//
// Functions/enums/records defined in headers are emitted by the first unit that
// wins an O_EXCL marker under --hdrdir, so every entity appears exactly once in
// the union of the per-unit outputs.
#include "clang/AST/ASTConsumer.h"
#include "clang/AST/ASTContext.h"
#include "clang/AST/Mangle.h"
#include "clang/AST/ParentMap.h"
#include "clang/AST/RecursiveASTVisitor.h"
#include "clang/Analysis/CFG.h"
#include "clang/Frontend/CompilerInstance.h"
#include "clang/Frontend/FrontendAction.h"
#include "clang/Lex/Lexer.h"
#include "clang/Tooling/CommonOptionsParser.h"
#include "clang/Tooling/Tooling.h"
#include "llvm/Support/CommandLine.h"
#include "llvm/Support/JSON.h"
#include "llvm/Support/SHA1.h"
#include "llvm/Support/raw_ostream.h"

#include <fcntl.h>
#include <unistd.h>

#include <map>
#include <set>
#include <string>
#include <vector>

using namespace clang;
using namespace clang::tooling;
using llvm::json::OStream;

static llvm::cl::OptionCategory Cat("uvfacts options");
static llvm::cl::opt<std::string> OutFile("out", llvm::cl::desc("output json"), llvm::cl::Required, llvm::cl::cat(Cat));
static llvm::cl::list<std::string> Roots("root", llvm::cl::desc("source roots"), llvm::cl::cat(Cat));
static llvm::cl::opt<std::string> HdrDir("hdrdir", llvm::cl::desc("marker dir for header entities"), llvm::cl::init(""), llvm::cl::cat(Cat));

namespace {

static bool underRoot(llvm::StringRef f)
{
   for (auto &r : Roots)
   {
      if (f.startswith(r))
      {
         return(true);
      }
   }
   return(false);
}


static bool winMarker(const std::string &key)
{
   if (HdrDir.empty())
   {
      return(true);
   }
   llvm::SHA1 h;
   h.update(key);
   auto        d = h.final();
   std::string hex;
   static const char *digits = "0123456789abcdef";
   for (size_t i = 0; i < 12 && i < d.size(); i++)
   {
      unsigned char c = (unsigned char)d[i];
      hex.push_back(digits[c >> 4]);
      hex.push_back(digits[c & 15]);
   }
   std::string p  = HdrDir + "/" + hex;
   int         fd = ::open(p.c_str(), O_CREAT | O_EXCL | O_WRONLY, 0644);
   if (fd < 0)
   {
      return(false);
   }
   ::close(fd);
   return(true);
}


class Extractor
{
public:
   Extractor(ASTContext &ctx, OStream &j)
      : Ctx(ctx), SM(ctx.getSourceManager()), J(j), NG(ctx)
   {
      PP = PrintingPolicy(ctx.getLangOpts());
      PP.SuppressTagKeyword = true;
      PP.Bool = true;
   }

   ASTContext          &Ctx;
   SourceManager       &SM;
   OStream             &J;
   ASTNameGenerator    NG;
   PrintingPolicy      PP { LangOptions() };
   std::string         MainFile;

   // per function
   std::map<const Stmt *, int> Ids;
   int                         NextId = 0;
   std::vector<const Stmt *>   Pending;   // nodes referenced but not CFG elements
   std::set<const Stmt *>      CalleeRefs; // callee operands of resolved calls (not emitted)
   std::unique_ptr<ParentMap>  PM;         // only built for functions that contain a try statement

   std::string fileOf(SourceLocation L)
   {
      L = SM.getExpansionLoc(L);
      auto fe = SM.getFileEntryForID(SM.getFileID(L));
      if (!fe)
      {
         return("");
      }
      llvm::SmallString<256> p(fe->tryGetRealPathName());
      if (p.empty())
      {
         p = fe->getName();
      }
      return(std::string(p.str()));
   }

   unsigned lineOf(SourceLocation L)
   {
      return(SM.getExpansionLineNumber(L));
   }

   std::string typeStr(QualType T)
   {
      if (T.isNull())
      {
         return("");
      }
      return(T.getAsString(PP));
   }

   std::string mangled(const Decl *D)
   {
      if (auto *FD = dyn_cast<FunctionDecl>(D))
      {
         if (FD->isDependentContext())
         {
            return("");
         }
      }
      std::string s = NG.getName(D);
      return(s);
   }

   std::string sigOf(const FunctionDecl *FD)
   {
      std::string s = "(";
      bool        first = true;
      for (auto *p : FD->parameters())
      {
         if (!first)
         {
            s += ",";
         }
         first = false;
         s += typeStr(p->getType());
      }
      s += ")";
      if (auto *MD = dyn_cast<CXXMethodDecl>(FD))
      {
         if (MD->isConst())
         {
            s += "const";
         }
      }
      return(s);
   }

   std::string qnOf(const NamedDecl *D)
   {
      std::string s;
      llvm::raw_string_ostream os(s);
      D->printQualifiedName(os, PP);
      return(os.str());
   }

   void macros(SourceLocation L)
   {
      if (!L.isMacroID())
      {
         return;
      }
      std::vector<std::string> names;
      int                      guard = 0;
      while (L.isMacroID() && guard++ < 16)
      {
         std::string n = Lexer::getImmediateMacroName(L, SM, Ctx.getLangOpts()).str();
         if (names.empty() || names.back() != n)
         {
            names.push_back(n);
         }
         L = SM.getImmediateMacroCallerLoc(L);
      }
      J.attributeArray("mac", [&] {
            for (auto &n : names)
            {
               J.value(n);
            }
         });
   }

   static const Stmt *strip(const Stmt *S)
   {
      while (S)
      {
         if (auto *E = dyn_cast<ImplicitCastExpr>(S))
         {
            S = E->getSubExpr();
         }
         else if (auto *E = dyn_cast<ParenExpr>(S))
         {
            S = E->getSubExpr();
         }
         else if (auto *E = dyn_cast<ExprWithCleanups>(S))
         {
            S = E->getSubExpr();
         }
         else if (auto *E = dyn_cast<MaterializeTemporaryExpr>(S))
         {
            S = E->getSubExpr();
         }
         else if (auto *E = dyn_cast<CXXBindTemporaryExpr>(S))
         {
            S = E->getSubExpr();
         }
         else if (auto *E = dyn_cast<ConstantExpr>(S))
         {
            S = E->getSubExpr();
         }
         else if (auto *E = dyn_cast<SubstNonTypeTemplateParmExpr>(S))
         {
            S = E->getReplacement();
         }
         else if (auto *E = dyn_cast<CXXDefaultArgExpr>(S))
         {
            S = E->getExpr();
         }
         else if (auto *E = dyn_cast<CXXDefaultInitExpr>(S))
         {
            S = E->getExpr();
         }
         else
         {
            break;
         }
      }
      return(S);
   }

   static bool isTransparent(const Stmt *S)
   {
      return(  isa<ImplicitCastExpr>(S) || isa<ParenExpr>(S) || isa<ExprWithCleanups>(S)
            || isa<MaterializeTemporaryExpr>(S) || isa<CXXBindTemporaryExpr>(S)
            || isa<ConstantExpr>(S) || isa<SubstNonTypeTemplateParmExpr>(S)
            || isa<CXXDefaultArgExpr>(S) || isa<CXXDefaultInitExpr>(S));
   }

   int idOf(const Stmt *S)
   {
      S = strip(S);
      if (!S)
      {
         return(-1);
      }
      auto it = Ids.find(S);
      if (it != Ids.end())
      {
         return(it->second);
      }
      int id = NextId++;
      Ids[S] = id;
      Pending.push_back(S);
      return(id);
   }

   void ref(const char *key, const Stmt *S)
   {
      J.attribute(key, idOf(S));
   }

   void refs(const char *key, llvm::ArrayRef<const Stmt *> v)
   {
      std::vector<int> ids;
      for (auto *s : v)
      {
         ids.push_back(idOf(s));
      }
      J.attributeArray(key, [&] {
            for (int i : ids)
            {
               J.value(i);
            }
         });
   }

   void declRef(const ValueDecl *D)
   {
      J.attribute("n", D->getNameAsString());
      if (auto *V = dyn_cast<VarDecl>(D))
      {
         if (isa<ParmVarDecl>(V))
         {
            J.attribute("d", "pv");
         }
         else if (V->isLocalVarDecl() && !V->isStaticLocal())
         {
            J.attribute("d", "lv");
         }
         else if (V->isStaticLocal())
         {
            J.attribute("d", "sv");
            J.attribute("qn", qnOf(V));
         }
         else
         {
            J.attribute("d", "gv");
            J.attribute("qn", qnOf(V));
         }
         J.attribute("t", typeStr(V->getType()));
         // unique id for locals: declaration line
         if (V->isLocalVarDecl() || isa<ParmVarDecl>(V))
         {
            J.attribute("dl", (int64_t)lineOf(V->getLocation()));
         }
      }
      else if (auto *F = dyn_cast<FunctionDecl>(D))
      {
         J.attribute("d", "fn");
         J.attribute("qn", qnOf(F));
         J.attribute("cm", mangled(F));
      }
      else if (auto *EC = dyn_cast<EnumConstantDecl>(D))
      {
         J.attribute("d", "ec");
         J.attribute("qn", qnOf(EC));
         J.attribute("v", EC->getInitVal().getExtValue());
      }
      else if (isa<FieldDecl>(D))
      {
         J.attribute("d", "fd");
         J.attribute("qn", qnOf(D));
         J.attribute("t", typeStr(D->getType()));
      }
      else
      {
         J.attribute("d", "other");
         J.attribute("qn", qnOf(D));
      }
   }

   void calleeAttrs(const FunctionDecl *FD)
   {
      J.attribute("c", qnOf(FD));
      std::string m = mangled(FD);
      if (!m.empty())
      {
         J.attribute("cm", m);
      }
      if (FD->isNoReturn())
      {
         J.attribute("nr", 1);
      }
   }

   // emit one node (attributes only; caller opens the object)
   void nodeBody(const Stmt *S)
   {
      J.attribute("l", (int64_t)lineOf(S->getBeginLoc()));
      macros(S->getBeginLoc());

      if (PM)
      {
         // is the statement inside the try-block of a CXXTryStmt?
         const Stmt *c = S;
         int        guard = 0;
         while (c && guard++ < 200)
         {
            const Stmt *p = PM->getParent(c);
            if (auto *TS = dyn_cast_or_null<CXXTryStmt>(p))
            {
               if (TS->getTryBlock() == c)
               {
                  J.attribute("try", 1);
                  break;
               }
            }
            c = p;
         }
      }

      if (auto *E = dyn_cast<CXXOperatorCallExpr>(S))
      {
         J.attribute("k", "call");
         J.attribute("op", getOperatorSpelling(E->getOperator()));
         if (auto *FD = E->getDirectCallee())
         {
            calleeAttrs(FD);
            if (auto *MD = dyn_cast<CXXMethodDecl>(FD))
            {
               if (MD->isConst())
               {
                  J.attribute("cq", 1);
               }
            }
            std::vector<const Stmt *> args;
            if (isa<CXXMethodDecl>(FD) && E->getNumArgs() > 0)
            {
               ref("o", E->getArg(0));
               for (unsigned i = 1; i < E->getNumArgs(); i++)
               {
                  args.push_back(E->getArg(i));
               }
            }
            else
            {
               for (auto *a : E->arguments())
               {
                  args.push_back(a);
               }
            }
            refs("a", args);
         }
         else
         {
            std::vector<const Stmt *> args;
            for (auto *a : E->arguments())
            {
               args.push_back(a);
            }
            refs("a", args);
         }
         J.attribute("t", typeStr(E->getType()));
      }
      else if (auto *E = dyn_cast<CXXMemberCallExpr>(S))
      {
         J.attribute("k", "call");
         if (auto *MD = E->getMethodDecl())
         {
            calleeAttrs(MD);
            if (MD->isVirtual())
            {
               J.attribute("v", 1);
            }
            if (MD->isConst())
            {
               J.attribute("cq", 1);
            }
         }
         if (auto *O = E->getImplicitObjectArgument())
         {
            ref("o", O);
         }
         if (auto *ME = dyn_cast<MemberExpr>(strip(E->getCallee())))
         {
            J.attribute("ar", ME->isArrow() ? 1 : 0);
         }
         std::vector<const Stmt *> args;
         for (auto *a : E->arguments())
         {
            args.push_back(a);
         }
         refs("a", args);
         J.attribute("t", typeStr(E->getType()));
      }
      else if (auto *E = dyn_cast<CallExpr>(S))
      {
         J.attribute("k", "call");
         if (auto *FD = E->getDirectCallee())
         {
            calleeAttrs(FD);
         }
         else
         {
            ref("fp", E->getCallee());
         }
         std::vector<const Stmt *> args;
         for (auto *a : E->arguments())
         {
            args.push_back(a);
         }
         refs("a", args);
         J.attribute("t", typeStr(E->getType()));
      }
      else if (auto *E = dyn_cast<CXXConstructExpr>(S))
      {
         J.attribute("k", "ctor");
         calleeAttrs(E->getConstructor());
         std::vector<const Stmt *> args;
         for (auto *a : E->arguments())
         {
            args.push_back(a);
         }
         refs("a", args);
         J.attribute("t", typeStr(E->getType()));
      }
      else if (auto *E = dyn_cast<DeclRefExpr>(S))
      {
         J.attribute("k", "ref");
         declRef(E->getDecl());
      }
      else if (auto *E = dyn_cast<MemberExpr>(S))
      {
         J.attribute("k", "mem");
         J.attribute("n", E->getMemberDecl()->getNameAsString());
         J.attribute("qn", qnOf(E->getMemberDecl()));
         J.attribute("ar", E->isArrow() ? 1 : 0);
         J.attribute("t", typeStr(E->getType()));
         if (isa<CXXMethodDecl>(E->getMemberDecl()))
         {
            J.attribute("meth", 1);
         }
         ref("b", E->getBase());
      }
      else if (isa<CXXThisExpr>(S))
      {
         J.attribute("k", "this");
      }
      else if (auto *E = dyn_cast<IntegerLiteral>(S))
      {
         J.attribute("k", "int");
         J.attribute("v", (int64_t)E->getValue().getLimitedValue());
      }
      else if (auto *E = dyn_cast<CharacterLiteral>(S))
      {
         J.attribute("k", "chr");
         J.attribute("v", (int64_t)E->getValue());
      }
      else if (auto *E = dyn_cast<StringLiteral>(S))
      {
         J.attribute("k", "str");
         if (E->getCharByteWidth() == 1)
         {
            std::string v = E->getString().str();
            if (v.size() > 400)
            {
               v.resize(400);
            }
            // JSON needs valid UTF-8; replace bytes >= 0x80
            for (auto &c : v)
            {
               if ((unsigned char)c >= 0x80)
               {
                  c = '?';
               }
            }
            J.attribute("v", v);
         }
         else
         {
            std::string v;
            for (unsigned i = 0; i < E->getLength() && i < 400; i++)
            {
               uint32_t cu = E->getCodeUnit(i);
               v.push_back(cu < 0x80 ? (char)cu : '?');
            }
            J.attribute("v", v);
            J.attribute("wide", 1);
         }
      }
      else if (auto *E = dyn_cast<CXXBoolLiteralExpr>(S))
      {
         J.attribute("k", "bool");
         J.attribute("v", E->getValue() ? 1 : 0);
      }
      else if (isa<CXXNullPtrLiteralExpr>(S) || isa<GNUNullExpr>(S))
      {
         J.attribute("k", "null");
      }
      else if (isa<FloatingLiteral>(S))
      {
         J.attribute("k", "flt");
      }
      else if (auto *E = dyn_cast<CompoundAssignOperator>(S))
      {
         J.attribute("k", "asg");
         J.attribute("op", E->getOpcodeStr());
         refs("a", { E->getLHS(), E->getRHS() });
      }
      else if (auto *E = dyn_cast<BinaryOperator>(S))
      {
         J.attribute("k", E->isAssignmentOp() ? "asg" : "bin");
         J.attribute("op", E->getOpcodeStr());
         refs("a", { E->getLHS(), E->getRHS() });
         if (E->getLHS()->getType()->isPointerType() && E->getRHS()->getType()->isPointerType())
         {
            J.attribute("pp", 1);   // both operands pointers
         }
      }
      else if (auto *E = dyn_cast<UnaryOperator>(S))
      {
         J.attribute("k", "un");
         J.attribute("op", UnaryOperator::getOpcodeStr(E->getOpcode()));
         if (E->isPostfix())
         {
            J.attribute("post", 1);
         }
         refs("a", { E->getSubExpr() });
      }
      else if (auto *E = dyn_cast<ConditionalOperator>(S))
      {
         J.attribute("k", "cond");
         refs("a", { E->getCond(), E->getTrueExpr(), E->getFalseExpr() });
      }
      else if (auto *E = dyn_cast<ExplicitCastExpr>(S))
      {
         J.attribute("k", "cast");
         J.attribute("t", typeStr(E->getType()));
         J.attribute("ck", E->getStmtClassName());
         refs("a", { E->getSubExpr() });
      }
      else if (auto *E = dyn_cast<ArraySubscriptExpr>(S))
      {
         J.attribute("k", "idx");
         refs("a", { E->getBase(), E->getIdx() });
      }
      else if (auto *E = dyn_cast<ReturnStmt>(S))
      {
         J.attribute("k", "ret");
         if (E->getRetValue())
         {
            refs("a", { E->getRetValue() });
         }
      }
      else if (auto *E = dyn_cast<DeclStmt>(S))
      {
         J.attribute("k", "decl");
         J.attributeArray("vars", [&] {
               for (auto *D : E->decls())
               {
                  if (auto *V = dyn_cast<VarDecl>(D))
                  {
                     J.object([&] {
                           J.attribute("n", V->getNameAsString());
                           J.attribute("t", typeStr(V->getType()));
                           J.attribute("dl", (int64_t)lineOf(V->getLocation()));
                           if (V->isStaticLocal())
                           {
                              J.attribute("static", 1);
                              J.attribute("qn", qnOf(V));
                           }
                           if (V->hasInit())
                           {
                              ref("init", V->getInit());
                           }
                        });
                  }
               }
            });
      }
      else if (auto *E = dyn_cast<InitListExpr>(S))
      {
         J.attribute("k", "init");
         std::vector<const Stmt *> args;
         unsigned                  n = 0;
         for (auto *a : E->inits())
         {
            if (n++ > 4000)
            {
               break;
            }
            args.push_back(a);
         }
         refs("a", args);
         J.attribute("t", typeStr(E->getType()));
      }
      else if (auto *E = dyn_cast<CXXNewExpr>(S))
      {
         J.attribute("k", "new");
         J.attribute("t", typeStr(E->getAllocatedType()));
         std::vector<const Stmt *> args;
         if (E->getInitializer())
         {
            args.push_back(E->getInitializer());
         }
         refs("a", args);
      }
      else if (auto *E = dyn_cast<CXXDeleteExpr>(S))
      {
         J.attribute("k", "delete");
         refs("a", { E->getArgument() });
      }
      else if (auto *E = dyn_cast<CXXThrowExpr>(S))
      {
         J.attribute("k", "throw");
         if (E->getSubExpr())
         {
            refs("a", { E->getSubExpr() });
         }
      }
      else if (auto *E = dyn_cast<LambdaExpr>(S))
      {
         J.attribute("k", "lambda");
         if (E->getCallOperator())
         {
            J.attribute("cm", mangled(E->getCallOperator()));
         }
      }
      else if (auto *E = dyn_cast<UnaryExprOrTypeTraitExpr>(S))
      {
         J.attribute("k", "sizeof");
         Expr::EvalResult R;
         if (!E->isValueDependent() && E->EvaluateAsInt(R, Ctx))
         {
            J.attribute("v", R.Val.getInt().getExtValue());
         }
      }
      else
      {
         J.attribute("k", "other");
         J.attribute("k2", S->getStmtClassName());
         std::vector<const Stmt *> ch;
         if (isa<Expr>(S))
         {
            for (auto *c : S->children())
            {
               if (c)
               {
                  ch.push_back(c);
               }
            }
         }
         refs("a", ch);
      }
   }

   void emitNode(const Stmt *S, int id)
   {
      J.object([&] {
            J.attribute("i", id);
            nodeBody(S);
         });
   }

   void caseLabel(const Stmt *L)
   {
      // collect all labels stacked on the block (case A: case B: default:)
      std::vector<std::string> vals;
      bool                     dflt = false;
      std::string              label;
      while (L)
      {
         if (auto *C = dyn_cast<CaseStmt>(L))
         {
            const Expr *e = C->getLHS();
            std::string v;
            if (auto *DR = dyn_cast<DeclRefExpr>(strip(e)))
            {
               v = DR->getDecl()->getNameAsString();
            }
            else
            {
               Expr::EvalResult R;
               if (!e->isValueDependent() && e->EvaluateAsInt(R, Ctx))
               {
                  v = std::to_string(R.Val.getInt().getExtValue());
               }
               else
               {
                  v = "?";
               }
            }
            vals.push_back(v);
            L = C->getSubStmt();
            if (!isa<CaseStmt>(L) && !isa<DefaultStmt>(L))
            {
               break;
            }
         }
         else if (auto *D = dyn_cast<DefaultStmt>(L))
         {
            dflt = true;
            L    = D->getSubStmt();
            if (!isa<CaseStmt>(L) && !isa<DefaultStmt>(L))
            {
               break;
            }
         }
         else if (auto *LS = dyn_cast<LabelStmt>(L))
         {
            label = LS->getName();
            break;
         }
         else
         {
            break;
         }
      }
      J.attributeObject("lab", [&] {
            if (!vals.empty())
            {
               J.attributeArray("case", [&] {
                     for (auto &v : vals)
                     {
                        J.value(v);
                     }
                  });
            }
            if (dflt)
            {
               J.attribute("default", 1);
            }
            if (!label.empty())
            {
               J.attribute("label", label);
            }
         });
   }

   void emitFunction(const FunctionDecl *FD)
   {
      const Stmt *Body = FD->getBody();
      if (!Body)
      {
         return;
      }
      CFG::BuildOptions BO;
      BO.setAllAlwaysAdd();
      BO.AddEHEdges        = false;
      BO.AddInitializers   = true;
      BO.AddImplicitDtors  = false;
      BO.AddTemporaryDtors = false;
      BO.PruneTriviallyFalseEdges = false;
      std::unique_ptr<CFG> G = CFG::buildCFG(FD, const_cast<Stmt *>(Body), &Ctx, BO);
      if (!G)
      {
         return;
      }
      Ids.clear();
      Pending.clear();
      CalleeRefs.clear();
      NextId = 0;
      PM.reset();
      {
         struct HasTry : RecursiveASTVisitor<HasTry>
         {
            bool found = false;
            bool VisitCXXTryStmt(CXXTryStmt *) { found = true; return(false); }
         } ht;
         ht.TraverseStmt(const_cast<Stmt *>(Body));
         if (ht.found)
         {
            PM.reset(new ParentMap(const_cast<Stmt *>(Body)));
         }
      }
      for (auto *B : *G)
      {
         for (auto &El : *B)
         {
            if (auto CS = El.getAs<CFGStmt>())
            {
               if (auto *CE = dyn_cast<CallExpr>(CS->getStmt()))
               {
                  bool resolved = CE->getDirectCallee() != nullptr;
                  if (auto *MC = dyn_cast<CXXMemberCallExpr>(CE))
                  {
                     resolved = MC->getMethodDecl() != nullptr;
                  }
                  if (resolved && CE->getCallee())
                  {
                     CalleeRefs.insert(strip(CE->getCallee()));
                  }
               }
            }
         }
      }

      // first pass: assign ids to CFG statement elements in block/element order
      for (auto *B : *G)
      {
         for (auto &El : *B)
         {
            if (auto CS = El.getAs<CFGStmt>())
            {
               const Stmt *S = CS->getStmt();
               if (isTransparent(S) || CalleeRefs.count(S))
               {
                  continue;
               }
               if (!Ids.count(S))
               {
                  Ids[S] = NextId++;
               }
            }
         }
      }

      J.object([&] {
            J.attribute("qn", qnOf(FD));
            J.attribute("m", mangled(FD));
            J.attribute("sig", sigOf(FD));
            J.attribute("file", fileOf(FD->getLocation()));
            J.attribute("l0", (int64_t)lineOf(FD->getBeginLoc()));
            J.attribute("l1", (int64_t)lineOf(FD->getEndLoc()));
            J.attribute("ret", typeStr(FD->getReturnType()));
            if (FD->isNoReturn())
            {
               J.attribute("nr", 1);
            }
            if (FD->getTemplateSpecializationKind() != TSK_Undeclared || FD->isTemplateInstantiation())
            {
               J.attribute("tmpl", 1);
            }
            if (!FD->isExternallyVisible())
            {
               J.attribute("internal", 1);
            }
            if (auto *MD = dyn_cast<CXXMethodDecl>(FD))
            {
               J.attribute("cls", qnOf(MD->getParent()));
               if (MD->isVirtual())
               {
                  J.attribute("virt", 1);
                  J.attributeArray("over", [&] {
                        for (auto *O : MD->overridden_methods())
                        {
                           J.value(mangled(O));
                        }
                     });
               }
               if (MD->getParent()->isLambda())
               {
                  J.attribute("lambda", 1);
               }
               if (MD->isStatic())
               {
                  J.attribute("smeth", 1);
               }
            }
            J.attributeArray("params", [&] {
                  for (auto *p : FD->parameters())
                  {
                     J.object([&] {
                           J.attribute("n", p->getNameAsString());
                           J.attribute("t", typeStr(p->getType()));
                        });
                  }
               });
            // implicit integral narrowing to a character type (the CFG nodes are emitted with implicit casts stripped)
            J.attributeArray("narrow", [&] {
                  struct Narrow : RecursiveASTVisitor<Narrow>
                  {
                     std::vector<const ImplicitCastExpr *> found;
                     bool VisitImplicitCastExpr(ImplicitCastExpr *E)
                     {
                        if (E->getCastKind() == CK_IntegralCast)
                        {
                           found.push_back(E);
                        }
                        return(true);
                     }
                  } nv;
                  nv.TraverseStmt(const_cast<Stmt *>(Body));
                  for (auto *E : nv.found)
                  {
                     QualType to = E->getType(), from = E->getSubExpr()->getType();
                     if (to->isDependentType() || from->isDependentType() || !to->isIntegerType() || !from->isIntegerType())
                     {
                        continue;
                     }
                     if (Ctx.getTypeSize(to) != 8 || Ctx.getTypeSize(from) <= 8)
                     {
                        continue;
                     }
                     const Stmt *sub = strip(E->getSubExpr());
                     J.object([&] {
                           J.attribute("l", (int64_t)lineOf(E->getBeginLoc()));
                           J.attribute("to", typeStr(to));
                           J.attribute("from", typeStr(from));
                           if (auto *CE = dyn_cast<CallExpr>(sub))
                           {
                              const FunctionDecl *D = CE->getDirectCallee();
                              if (auto *MC = dyn_cast<CXXMemberCallExpr>(CE))
                              {
                                 D = MC->getMethodDecl();
                              }
                              if (D)
                              {
                                 J.attribute("c", qnOf(D));
                              }
                           }
                        });
                  }
               });
            // a signed, non-constant operand converted to an unsigned 64-bit type inside + or - (a negative value wraps)
            J.attributeArray("s2u", [&] {
                  struct S2U : RecursiveASTVisitor<S2U>
                  {
                     std::vector<std::pair<const BinaryOperator *, const Expr *> > found;
                     bool VisitBinaryOperator(BinaryOperator *B)
                     {
                        if (B->getOpcode() == BO_Add || B->getOpcode() == BO_Sub)
                        {
                           for (const Expr *O : { B->getLHS(), B->getRHS() })
                           {
                              const Expr *E = O->IgnoreParens();
                              if (auto *IC = dyn_cast<ImplicitCastExpr>(E))
                              {
                                 if (IC->getCastKind() == CK_IntegralCast)
                                 {
                                    found.push_back({ B, IC });
                                 }
                              }
                           }
                        }
                        return(true);
                     }
                  } sv;
                  sv.TraverseStmt(const_cast<Stmt *>(Body));
                  for (auto &pr : sv.found)
                  {
                     auto *IC = cast<ImplicitCastExpr>(pr.second);
                     QualType to = IC->getType(), from = IC->getSubExpr()->getType();
                     if (to->isDependentType() || from->isDependentType() || !to->isUnsignedIntegerType() || !from->isSignedIntegerType())
                     {
                        continue;
                     }
                     if (Ctx.getTypeSize(to) < 64 || from->isBooleanType())
                     {
                        continue;
                     }
                     Expr::EvalResult R;
                     if (!IC->getSubExpr()->isValueDependent() && IC->getSubExpr()->EvaluateAsInt(R, Ctx))
                     {
                        continue;                  // a constant
                     }
                     const Stmt *sub = strip(IC->getSubExpr());
                     J.object([&] {
                           J.attribute("l", (int64_t)lineOf(pr.first->getBeginLoc()));
                           J.attribute("op", pr.first->getOpcodeStr().str());
                           J.attribute("from", typeStr(from));
                           if (auto *DR = dyn_cast<DeclRefExpr>(sub))
                           {
                              J.attribute("v", DR->getDecl()->getNameAsString());
                           }
                        });
                  }
               });
            J.attribute("entry", (int64_t)G->getEntry().getBlockID());
            J.attribute("exit", (int64_t)G->getExit().getBlockID());
            J.attributeArray("blocks", [&] {
                  for (auto *B : *G)
                  {
                     J.object([&] {
                           J.attribute("b", (int64_t)B->getBlockID());
                           J.attributeArray("s", [&] {
                                 for (auto &Sc : B->succs())
                                 {
                                    const CFGBlock *T = Sc.getReachableBlock();
                                    if (!T)
                                    {
                                       T = Sc.getPossiblyUnreachableBlock();
                                    }
                                    J.value(T ? (int64_t)T->getBlockID() : (int64_t)-1);
                                 }
                              });
                           if (B->hasNoReturnElement())
                           {
                              J.attribute("nr", 1);
                           }
                           if (const Stmt *L = B->getLabel())
                           {
                              caseLabel(L);
                           }
                           if (const Stmt *T = B->getTerminatorStmt())
                           {
                              J.attributeObject("term", [&] {
                                    std::string k = T->getStmtClassName();
                                    if (auto *BOp = dyn_cast<BinaryOperator>(T))
                                    {
                                       k = BOp->getOpcodeStr().str();
                                    }
                                    J.attribute("k", k);
                                    J.attribute("l", (int64_t)lineOf(T->getBeginLoc()));
                                    macros(T->getBeginLoc());
                                    if (const Stmt *C = B->getTerminatorCondition(false))
                                    {
                                       ref("c", C);
                                    }
                                    if (const Expr *LC = B->getLastCondition())
                                    {
                                       ref("lc", LC);
                                    }
                                    if (auto *IS = dyn_cast<IfStmt>(T))
                                    {
                                       if (IS->getElse())
                                       {
                                          J.attribute("else", 1);
                                       }
                                    }
                                 });
                           }
                           J.attributeArray("n", [&] {
                                 for (auto &El : *B)
                                 {
                                    if (auto CS = El.getAs<CFGStmt>())
                                    {
                                       const Stmt *S = CS->getStmt();
                                       if (isTransparent(S) || CalleeRefs.count(S))
                                       {
                                          continue;
                                       }
                                       emitNode(S, Ids[S]);
                                    }
                                    else if (auto CI = El.getAs<CFGInitializer>())
                                    {
                                       const CXXCtorInitializer *I = CI->getInitializer();
                                       J.object([&] {
                                             J.attribute("i", NextId++);
                                             J.attribute("k", "minit");
                                             J.attribute("l", (int64_t)lineOf(I->getSourceLocation()));
                                             if (I->getAnyMember())
                                             {
                                                J.attribute("n", I->getAnyMember()->getNameAsString());
                                                J.attribute("qn", qnOf(I->getAnyMember()));
                                             }
                                             if (I->getInit())
                                             {
                                                refs("a", { I->getInit() });
                                             }
                                          });
                                    }
                                 }
                              });
                        });
                  }
               });
            // nodes referenced but never a CFG element
            J.attributeArray("x", [&] {
                  size_t k = 0;
                  while (k < Pending.size() && k < 200000)
                  {
                     const Stmt *S = Pending[k++];
                     emitNode(S, Ids[S]);
                  }
               });
         });
   }

   // nested initialiser tree for globals (not CFG based)
   void tree(const Stmt *S, int depth, int &budget)
   {
      S = strip(S);
      if (!S || depth > 12 || budget <= 0)
      {
         J.value(nullptr);
         return;
      }
      budget--;
      J.object([&] {
            if (auto *E = dyn_cast<InitListExpr>(S))
            {
               J.attribute("k", "init");
               J.attributeArray("a", [&] {
                     for (auto *a : E->inits())
                     {
                        tree(a, depth + 1, budget);
                     }
                  });
            }
            else if (auto *E = dyn_cast<CXXConstructExpr>(S))
            {
               J.attribute("k", "ctor");
               J.attribute("c", qnOf(E->getConstructor()));
               J.attribute("t", typeStr(E->getType()));
               J.attributeArray("a", [&] {
                     for (auto *a : E->arguments())
                     {
                        tree(a, depth + 1, budget);
                     }
                  });
            }
            else if (auto *E = dyn_cast<StringLiteral>(S))
            {
               J.attribute("k", "str");
               std::string v = E->getCharByteWidth() == 1 ? E->getString().str() : std::string("<wide>");
               for (auto &c : v)
               {
                  if ((unsigned char)c >= 0x80)
                  {
                     c = '?';
                  }
               }
               J.attribute("v", v);
            }
            else if (auto *E = dyn_cast<DeclRefExpr>(S))
            {
               J.attribute("k", "ref");
               declRef(E->getDecl());
            }
            else if (auto *E = dyn_cast<Expr>(S))
            {
               Expr::EvalResult R;
               if (!E->isValueDependent() && E->getType()->isIntegralOrEnumerationType() && E->EvaluateAsInt(R, Ctx))
               {
                  J.attribute("k", "int");
                  J.attribute("v", R.Val.getInt().getExtValue());
               }
               else
               {
                  J.attribute("k", "other");
                  J.attribute("k2", S->getStmtClassName());
                  J.attributeArray("a", [&] {
                        for (auto *c : S->children())
                        {
                           if (c)
                           {
                              tree(c, depth + 1, budget);
                           }
                        }
                     });
               }
            }
            else
            {
               J.attribute("k", "other");
            }
         });
   }
};

class Visitor : public RecursiveASTVisitor<Visitor>
{
public:
   Visitor(ASTContext &ctx, OStream &j)
      : X(ctx, j), Ctx(ctx), J(j) {}

   Extractor                      X;
   ASTContext                     &Ctx;
   OStream                        &J;
   std::string                    Main;
   std::vector<const FunctionDecl *> Funcs;
   std::vector<const VarDecl *>      Vars;
   std::vector<const EnumDecl *>     Enums;
   std::vector<const CXXRecordDecl *> Recs;
   std::set<std::string>             SeenF;

   bool shouldVisitTemplateInstantiations() const { return(true); }
   bool shouldVisitImplicitCode() const { return(false); }

   bool VisitFunctionDecl(FunctionDecl *FD)
   {
      if (!FD->doesThisDeclarationHaveABody() || FD->isDependentContext())
      {
         return(true);
      }
      std::string f = X.fileOf(FD->getLocation());
      if (!underRoot(f))
      {
         return(true);
      }
      Funcs.push_back(FD);
      return(true);
   }

   bool VisitVarDecl(VarDecl *V)
   {
      if (isa<ParmVarDecl>(V) || (V->isLocalVarDecl() && !V->isStaticLocal()))
      {
         return(true);
      }
      if (V->getDeclContext()->isDependentContext())
      {
         return(true);
      }
      std::string f = X.fileOf(V->getLocation());
      if (!underRoot(f))
      {
         return(true);
      }
      Vars.push_back(V);
      return(true);
   }

   bool VisitEnumDecl(EnumDecl *E)
   {
      if (!E->isCompleteDefinition())
      {
         return(true);
      }
      if (underRoot(X.fileOf(E->getLocation())))
      {
         Enums.push_back(E);
      }
      return(true);
   }

   bool VisitCXXRecordDecl(CXXRecordDecl *R)
   {
      if (!R->isCompleteDefinition() || R->isDependentContext() || R->isLambda())
      {
         return(true);
      }
      if (underRoot(X.fileOf(R->getLocation())))
      {
         Recs.push_back(R);
      }
      return(true);
   }

   void run(TranslationUnitDecl *TU)
   {
      TraverseDecl(TU);
      J.object([&] {
            J.attribute("main", Main);
            J.attributeArray("functions", [&] {
                  for (auto *FD : Funcs)
                  {
                     std::string f   = X.fileOf(FD->getLocation());
                     std::string key = X.mangled(FD);
                     if (key.empty())
                     {
                        key = X.qnOf(FD) + X.sigOf(FD);
                     }
                     if (!FD->isExternallyVisible())
                     {
                        key += "@" + f;
                     }
                     if (!SeenF.insert(key).second)
                     {
                        continue;
                     }
                     bool inMain = (f == Main);
                     if (!inMain || FD->isTemplateInstantiation() || FD->isInlined())
                     {
                        if (!winMarker("F" + key))
                        {
                           continue;
                        }
                     }
                     X.emitFunction(FD);
                  }
               });
            J.attributeArray("globals", [&] {
                  std::set<std::string> seen;
                  for (auto *V : Vars)
                  {
                     const VarDecl *Def = V->getDefinition();
                     bool           isDef = (V->isThisDeclarationADefinition() != VarDecl::DeclarationOnly);
                     std::string    qn = X.qnOf(V);
                     std::string    f  = X.fileOf(V->getLocation());
                     std::string    key = qn + (V->isExternallyVisible() ? "" : "@" + f) + (isDef ? "#def" : "#decl");
                     if (!seen.insert(key).second)
                     {
                        continue;
                     }
                     if (f != Main || !isDef)
                     {
                        if (!winMarker("V" + key))
                        {
                           continue;
                        }
                     }
                     (void)Def;
                     J.object([&] {
                           J.attribute("qn", qn);
                           J.attribute("n", V->getNameAsString());
                           J.attribute("t", X.typeStr(V->getType()));
                           J.attribute("file", f);
                           J.attribute("l", (int64_t)X.lineOf(V->getLocation()));
                           J.attribute("def", isDef ? 1 : 0);
                           J.attribute("const", V->getType().isConstQualified() ? 1 : 0);
                           if (V->isStaticLocal())
                           {
                              J.attribute("slocal", 1);
                           }
                           if (!V->isExternallyVisible())
                           {
                              J.attribute("internal", 1);
                           }
                           if (V->isStaticDataMember())
                           {
                              J.attribute("smember", 1);
                           }
                           if (isDef && V->hasInit() && !V->isStaticLocal())
                           {
                              int budget = 6000;
                              J.attributeBegin("init");
                              X.tree(V->getInit(), 0, budget);
                              J.attributeEnd();
                           }
                        });
                  }
               });
            J.attributeArray("enums", [&] {
                  for (auto *E : Enums)
                  {
                     std::string qn = X.qnOf(E);
                     if (!winMarker("E" + qn + X.fileOf(E->getLocation())))
                     {
                        continue;
                     }
                     J.object([&] {
                           J.attribute("qn", qn);
                           J.attribute("file", X.fileOf(E->getLocation()));
                           J.attribute("l", (int64_t)X.lineOf(E->getLocation()));
                           J.attributeArray("e", [&] {
                                 for (auto *C : E->enumerators())
                                 {
                                    J.array([&] {
                                          J.value(C->getNameAsString());
                                          J.value(C->getInitVal().getExtValue());
                                       });
                                 }
                              });
                        });
                  }
               });
            J.attributeArray("records", [&] {
                  for (auto *R : Recs)
                  {
                     std::string qn = X.qnOf(R);
                     if (!winMarker("R" + qn + X.fileOf(R->getLocation())))
                     {
                        continue;
                     }
                     J.object([&] {
                           J.attribute("qn", qn);
                           J.attribute("file", X.fileOf(R->getLocation()));
                           J.attribute("l", (int64_t)X.lineOf(R->getLocation()));
                           J.attributeArray("bases", [&] {
                                 for (auto &B : R->bases())
                                 {
                                    J.value(X.typeStr(B.getType()));
                                 }
                              });
                           J.attributeArray("fields", [&] {
                                 for (auto *F : R->fields())
                                 {
                                    J.object([&] {
                                          J.attribute("n", F->getNameAsString());
                                          J.attribute("t", X.typeStr(F->getType()));
                                          J.attribute("const", F->getType().isConstQualified() ? 1 : 0);
                                       });
                                 }
                              });
                        });
                  }
               });
         });
   }
};

class Consumer : public ASTConsumer
{
public:
   std::string Main;
   explicit Consumer(std::string m)
      : Main(std::move(m)) {}

   void HandleTranslationUnit(ASTContext &Ctx) override
   {
      if (Ctx.getDiagnostics().hasErrorOccurred())
      {
         llvm::errs() << "uvfacts: parse errors in " << Main << "\n";
         exit(3);
      }
      std::error_code      EC;
      llvm::raw_fd_ostream OS(OutFile, EC);
      if (EC)
      {
         llvm::errs() << "uvfacts: cannot open " << OutFile << "\n";
         exit(4);
      }
      OStream J(OS);
      Visitor V(Ctx, J);
      auto    &SM = Ctx.getSourceManager();
      if (auto *fe = SM.getFileEntryForID(SM.getMainFileID()))
      {
         llvm::SmallString<256> p(fe->tryGetRealPathName());
         V.Main = std::string(p.empty() ? fe->getName() : p.str());
      }
      V.run(Ctx.getTranslationUnitDecl());
      OS.flush();
   }
};

class Action : public ASTFrontendAction
{
public:
   std::unique_ptr<ASTConsumer> CreateASTConsumer(CompilerInstance &CI, llvm::StringRef File) override
   {
      return(std::make_unique<Consumer>(File.str()));
   }
};
} // namespace

int main(int argc, const char **argv)
{
   auto EP = CommonOptionsParser::create(argc, argv, Cat);

   if (!EP)
   {
      llvm::errs() << llvm::toString(EP.takeError()) << "\n";
      return(2);
   }
   ClangTool Tool(EP->getCompilations(), EP->getSourcePathList());
   Tool.appendArgumentsAdjuster(getInsertArgumentAdjuster("-w", ArgumentInsertPosition::END));
   return(Tool.run(newFrontendActionFactory<Action>().get()));
}
